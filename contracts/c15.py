"""C15 / C16 / C17 contracts: name resolution during inlining and unrolling.

ExpressionLowerer._resolve_constant_symbol is the single place where a name inside an inlined function body
or an unrolled loop body is turned into a compile-time integer.  'Calling = substituting' and 'loop = unrolling'
need lexical scoping here: the innermost binding of the name decides — a parameter binding first, then the
caller's variables (loop iterators, locals), then the global symbol table — and a name whose innermost binding is
a run-time Signal is NOT a constant, whatever an outer scope binds the same spelling to."""
from __future__ import annotations

import z3

from pyvc import types as ty
from pyvc.contract import Contract
from pyvc.ghost import isa
from pyvc.values import SObj, fresh_name
from spec import ops
from spec.ops import And, Implies, Not, Or

EL = "dsl_compiler/src/lowering/expression_lowerer.py::ExpressionLowerer."
_OPQ = ty.TOpaque("x")
_REFOBJ = ty.TObj("SignalRef", only=("SignalRef", "BundleRef"))
_MAP = ty.TUnionMap(ty.Str, _REFOBJ)

CAP = {}


def _lookup_effect(ex, a):
    sym = ex.mk(ty.TOpt(ty.TObj("Symbol", only=("Symbol",), ftypes=(
        ("value_type", ty.TObj("IntValue", only=("IntValue", "SignalValue"), ftypes=(("value", ty.TOpt(ty.Int)),))),))),
        fresh_name("symbol"), register=True)
    CAP["symbol"] = sym
    return sym


scope_lookup = Contract(qualname="dsl_compiler/src/semantic/symbol_table.py::SymbolTable.lookup", params={"self": _OPQ, "name": ty.Str},
                        effect=_lookup_effect, verify=False, note="symbol table lookup (its own contract: contracts.c14 lookup / lookup_rec)")


def _resolve_post(a, res):
    P, S = a.self.parent.param_values, a.self.parent.signal_refs
    n = a.name
    inP, inS = z3.Select(P.present, n), z3.Select(S.present, n)
    def eq(v):
        return False if res is None else res == v
    none = res is None
    from_params = z3.If(z3.Select(P.isint, n), eq(z3.Select(P.ival, n)), none)
    from_vars = z3.If(z3.Select(S.isint, n), eq(z3.Select(S.ival, n)), none)
    sym = CAP.get("symbol", "unset")
    if isinstance(sym, str):
        glob = True  # path did not reach the symbol table: only possible when a binding was found (checked below)
        reached = False
    else:
        reached = True
        if sym is None:
            glob = none
        else:
            vt = sym.value_type
            if isa(vt, "IntValue"):
                glob = none if vt.value is None else eq(vt.value)
            else:
                glob = none
    return And(Implies(inP, from_params), Implies(And(Not(inP), inS), from_vars),
               Implies(And(Not(inP), Not(inS)), And(reached, glob)))


def _reset(ex, a):
    CAP.clear()
    return True


resolve = Contract(
    qualname=EL + "_resolve_constant_symbol",
    params={"self": ty.TObj("ExpressionLowerer", only=("ExpressionLowerer",)), "name": ty.Str},
    requires=[("(reset capture)", lambda a: CAP.clear() or True)],
    ensures=[("innermost binding decides: parameter, then caller variable, then global; a Signal binding is not a constant", _resolve_post)],
    uses={"SymbolTable.lookup": scope_lookup, "opaque.lookup": scope_lookup},
    dynamic_types={"self": {"parent": ty.TObj("ASTLowerer", only=("ASTLowerer",)), "semantic": ty.TObj("SemanticAnalyzer", only=("SemanticAnalyzer",))},
                   "self.parent": {"param_values": _MAP, "signal_refs": _MAP},
                   "self.semantic": {"current_scope": ty.TObj("SymbolTable", only=("SymbolTable",))}},
    returns=ty.TOpt(ty.Int),
    properties=("C15", "C16", "C17", "C09"), min_obligations=5, no_replay=True,
)

CONTRACTS = [resolve, scope_lookup]

# =================================================================================================
# ExpressionLowerer.lower_identifier: a name denotes its innermost binding (parameter before caller variable), and
# only a read of a caller VARIABLE marks that name as referenced (C20: a parameter read inside an inlined body must not
# hide a top-level result of the same spelling; C03-1-style copies: the binding itself is returned, not a fresh copy).
# =================================================================================================
def _ident_post(a, res):
    P, S = a.self.parent.param_values, a.self.parent.signal_refs
    R_old, R_new = a.old.self.parent.referenced_signal_names, a.self.parent.referenced_signal_names
    n = a.expr.name
    inP, inS = z3.Select(P.present, n), z3.Select(S.present, n)
    k = z3.String("any_name")
    frame_same = z3.ForAll([k], z3.Select(R_new.member, k) == z3.Select(R_old.member, k))
    frame_add = z3.ForAll([k], z3.Select(R_new.member, k) == Or(z3.Select(R_old.member, k), k == n))
    def is_int_of(M):
        return And(z3.Select(M.isint, n), ops.eq(res, z3.Select(M.ival, n))) if not isinstance(res, SObj) else Not(z3.Select(M.isint, n))
    return And(Implies(inP, And(frame_same, is_int_of(P))),
               Implies(And(Not(inP), inS), And(frame_add, is_int_of(S))),
               Implies(And(Not(inP), Not(inS)), frame_same))


ident = Contract(
    qualname=EL + "lower_identifier",
    params={"self": ty.TObj("ExpressionLowerer", only=("ExpressionLowerer",)), "expr": ty.TObj("IdentifierExpr", only=("IdentifierExpr",))},
    ensures=[("innermost binding; only a caller-variable read is recorded as a reference", _ident_post)],
    uses={"ExpressionLowerer._error": "skip", "IRBuilder.const": "skip", "IRBuilder.allocate_implicit_type": "skip",
          "opaque.const": "skip", "opaque.allocate_implicit_type": "skip"},
    dynamic_types={"self": {"parent": ty.TObj("ASTLowerer", only=("ASTLowerer",)), "ir_builder": ty.TOpaque("builder")},
                   "self.parent": {"param_values": _MAP, "signal_refs": _MAP, "referenced_signal_names": ty.TSet(ty.Str)},
                   "expr": {"name": ty.Str}},
    properties=("C15", "C20", "C16"), min_obligations=3, no_replay=True,
)
CONTRACTS.append(ident)

# =================================================================================================
# ExpressionLowerer.lower_function_call_inline: the callee runs with its parameters bound to the lowered arguments
# and the CALLER's bindings come back untouched afterwards — parameter values (shadowed ones restored, new ones
# removed; an int parameter bound to the INTEGER a constant argument denotes), variables (callee locals gone, shadowed ones restored), entities (the caller's entity of a name the
# callee reused is kept; entities the callee created under fresh names are handed out) and the inlining stack.
# Concrete scope shape: 2 parameters (one shadowing an outer parameter), a body of one statement + return.
# =================================================================================================
from pyvc.values import Opaque as _Opq  # noqa: E402
from pyvc.ghost import ghost  # noqa: E402

TR = {}
_OUTER_P, _OTHER, _V0, _ARG = _Opq("outer-p"), _Opq("other-param"), _Opq("caller-v"), {}


def _arg_effect(ex, a):
    r = SObj(["SignalRef"], fresh_name("arg"), lazy=True)
    TR.setdefault("lowered", []).append((a.expr, r))
    return r


def _body_effect(ex, a):
    me = ex.args_ns.self.parent
    TR["params_in_body"] = dict(me.param_values)
    TR["stack_in_body"] = list(me._inlining_stack)
    me.signal_refs["v"] = _Opq("callee-v")          # callee local shadowing a caller variable
    me.signal_refs["loc"] = _Opq("callee-local")    # fresh callee local
    me.entity_refs["lamp"] = "E_callee"             # callee entity named like the caller's
    me.entity_refs["made"] = "E_new"                # callee entity under a fresh name
    return None


lower_arg = Contract(qualname=EL + "lower_expr", params={"self": _OPQ, "expr": _OPQ}, effect=_arg_effect, verify=False,
                     note="lowers an argument / the return expression to a fresh reference (recorded)")
lower_body = Contract(qualname="dsl_compiler/src/lowering/statement_lowerer.py::StatementLowerer.lower_statement", params={"self": _OPQ, "stmt": _OPQ},
                      effect=_body_effect, verify=False, note="the body statement declares locals and entities (two of them shadowing the caller's)")


def _func_lookup(ex, a):
    return TR["symbol"]


func_lookup = Contract(qualname="dsl_compiler/src/semantic/symbol_table.py::SymbolTable.lookup", params={"self": _OPQ, "name": _OPQ}, effect=_func_lookup, verify=False,
                       note="returns the function symbol")


def _inline_post(a, res):
    me = a.self.parent
    lowered = dict((id(e), r) for e, r in TR.get("lowered", []))
    args = a.expr.args
    ret_expr = TR["ret_expr"]
    inb = TR.get("params_in_body")
    if inb is None:
        return False
    qconst = args[1]._fields.get("@cval")
    # an int parameter is bound to the INTEGER its constant argument denotes (like an int variable: it must not become a constant signal with a type of its own),
    # else to the lowered argument; a Signal parameter always to the lowered argument
    q_ok = (inb.get("q") is qconst and id(args[1]) not in lowered) if qconst is not None else (inb.get("q") is lowered.get(id(args[1])))
    cs = [inb.get("p") is lowered.get(id(args[0])), q_ok, "@cval" not in args[0]._fields, inb.get("other") is _OTHER,
          TR.get("stack_in_body") == ["f"],
          # afterwards: the caller's world
          me.param_values == {"p": _OUTER_P, "other": _OTHER},
          me.signal_refs == {"v": _V0},
          me.entity_refs.get("lamp") == "E0", me.entity_refs.get("made") == "E_new", set(me.entity_refs) == {"lamp", "made"},
          me._inlining_stack == [],
          res is lowered.get(id(ret_expr))]
    return all(bool(c) for c in cs)


def _setup(a):
    TR.clear()
    return True


def _mk_symbol_type():
    from pyvc.values import SObj as _S
    return None


_PARAM = lambda n, t: ty.TObj("TypedParam", only=("TypedParam",), ftypes=(("name", ty.TConcrete(n)), ("type_name", ty.TConcrete(t))))  # noqa: E731
_RET_EXPR = ty.TObj("Expr", only=("BinaryOp",))
_FUNC = ty.TObj("FuncDecl", only=("FuncDecl",), ftypes=(
    ("params", ty.TTuple((_PARAM("p", "Signal"), _PARAM("q", "int")))),
    ("body", ty.TTuple((ty.TObj("Statement", only=("ExprStmt",)), ty.TObj("ReturnStmt", only=("ReturnStmt",), ftypes=(("expr", _RET_EXPR),)))))))


def _symbol_effect(ex, a):
    sym = TR.get("symbol")
    if sym is None:
        sym = ex.mk(ty.TObj("Symbol", only=("Symbol",), ftypes=(("symbol_type", ty.TConcrete("function")), ("function_def", _FUNC))), "func_symbol", register=True)
        TR["symbol"] = sym
        TR["ret_expr"] = sym.function_def.body[1].expr
    return sym


func_lookup.effect = _symbol_effect

inline_call = Contract(
    qualname=EL + "lower_function_call_inline",
    params={"self": ty.TObj("ExpressionLowerer", only=("ExpressionLowerer",)),
            "expr": ty.TObj("CallExpr", only=("CallExpr",), ftypes=(("name", ty.TConcrete("f")), ("args", ty.TTuple((ty.TObj("Expr", only=("BinaryOp",)), ty.TObj("Expr", only=("BinaryOp",)))))))},
    requires=[("(reset trace)", _setup), ("(whether the int argument is a compile-time constant, and which)", lambda a: ghost(a.expr.args[1], "cval", ty.TOpt(ty.Int)) is None or True)],
    ensures=[("parameters bound in the body (an int parameter to the integer its constant argument denotes); the caller's parameters, variables, entities and inlining stack are "
              "restored exactly", _inline_post)],
    uses={"ExpressionLowerer.lower_expr": lower_arg, "StatementLowerer.lower_statement": lower_body, "SymbolTable.lookup": func_lookup,
          "ExpressionLowerer._error": "skip", "IRBuilder.const": "skip", "IRBuilder.allocate_implicit_type": "skip",
          "ConstantFolder.extract_constant_int": Contract(qualname="dsl_compiler/src/lowering/constant_folder.py::ConstantFolder.extract_constant_int",
                                                          params={"cls": _OPQ, "expr": _OPQ, "diagnostics": _OPQ, "symbol_resolver": _OPQ}, defaults={"diagnostics": None, "symbol_resolver": None},
                                                          effect=lambda ex, a: ghost(a.expr, "cval", ty.TOpt(ty.Int)), verify=False,
                                                          note="verified separately (contracts.c11): the S3 constant value of the expression, or None")},
    dynamic_types={"self": {"parent": ty.TObj("ASTLowerer", only=("ASTLowerer",)), "semantic": ty.TObj("SemanticAnalyzer", only=("SemanticAnalyzer",)),
                            "ir_builder": ty.TObj("IRBuilder", only=("IRBuilder",))},
                   "self.parent": {"param_values": ty.TConcrete({"p": _OUTER_P, "other": _OTHER}), "signal_refs": ty.TConcrete({"v": _V0}),
                                   "entity_refs": ty.TConcrete({"lamp": "E0"}), "_inlining_stack": ty.TConcrete([]), "diagnostics": ty.TOpaque("diag"),
                                   "stmt_lowerer": ty.TObj("StatementLowerer", only=("StatementLowerer",)), "returned_entity_id": ty.TConcrete(None)},
                   "self.semantic": {"current_scope": ty.TObj("SymbolTable", only=("SymbolTable",))}},
    properties=("C15", "C09", "C16"), min_obligations=1, no_replay=True, note="concrete scope shape (2 parameters, one body statement, return)",
)
CONTRACTS += [inline_call, lower_arg, lower_body, func_lookup]
