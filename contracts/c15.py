"""C15 / C16 / C17 contracts: name resolution during inlining and unrolling.

ExpressionLowerer._resolve_constant_symbol is the single place where a name inside an inlined function body
or an unrolled loop body is turned into a compile-time integer.  'Calling = substituting' and 'loop = unrolling'
need lexical scoping here: the innermost binding of the name decides — a parameter binding first, then the
caller's variables (loop iterators, locals), then the global symbol table — and a name whose innermost binding is
a run-time Signal is NOT a constant, whatever an outer scope binds the same spelling to."""
from __future__ import annotations

import z3

from pyvc import types as ty
from pyvc.contract import Contract
from pyvc.ghost import isa
from pyvc.values import SObj, fresh_name
from spec import ops
from spec.ops import And, Implies, Not, Or

EL = "dsl_compiler/src/lowering/expression_lowerer.py::ExpressionLowerer."
_OPQ = ty.TOpaque("x")
_REFOBJ = ty.TObj("SignalRef", only=("SignalRef", "BundleRef"))
_MAP = ty.TUnionMap(ty.Str, _REFOBJ)

CAP = {}


def _lookup_effect(ex, a):
    sym = ex.mk(ty.TOpt(ty.TObj("Symbol", only=("Symbol",), ftypes=(
        ("value_type", ty.TObj("IntValue", only=("IntValue", "SignalValue"), ftypes=(("value", ty.TOpt(ty.Int)),))),))),
        fresh_name("symbol"), register=True)
    CAP["symbol"] = sym
    return sym


scope_lookup = Contract(qualname="dsl_compiler/src/semantic/symbol_table.py::SymbolTable.lookup", params={"self": _OPQ, "name": ty.Str},
                        effect=_lookup_effect, verify=False, note="symbol table lookup (its own contract: contracts.c14 lookup / lookup_rec)")


def _resolve_post(a, res):
    P, S = a.self.parent.param_values, a.self.parent.signal_refs
    n = a.name
    inP, inS = z3.Select(P.present, n), z3.Select(S.present, n)
    def eq(v):
        return False if res is None else res == v
    none = res is None
    from_params = z3.If(z3.Select(P.isint, n), eq(z3.Select(P.ival, n)), none)
    from_vars = z3.If(z3.Select(S.isint, n), eq(z3.Select(S.ival, n)), none)
    sym = CAP.get("symbol", "unset")
    if isinstance(sym, str):
        glob = True  # path did not reach the symbol table: only possible when a binding was found (checked below)
        reached = False
    else:
        reached = True
        if sym is None:
            glob = none
        else:
            vt = sym.value_type
            if isa(vt, "IntValue"):
                glob = none if vt.value is None else eq(vt.value)
            else:
                glob = none
    return And(Implies(inP, from_params), Implies(And(Not(inP), inS), from_vars),
               Implies(And(Not(inP), Not(inS)), And(reached, glob)))


def _reset(ex, a):
    CAP.clear()
    return True


resolve = Contract(
    qualname=EL + "_resolve_constant_symbol",
    params={"self": ty.TObj("ExpressionLowerer", only=("ExpressionLowerer",)), "name": ty.Str},
    requires=[("(reset capture)", lambda a: CAP.clear() or True)],
    ensures=[("innermost binding decides: parameter, then caller variable, then global; a Signal binding is not a constant", _resolve_post)],
    uses={"SymbolTable.lookup": scope_lookup, "opaque.lookup": scope_lookup},
    dynamic_types={"self": {"parent": ty.TObj("ASTLowerer", only=("ASTLowerer",)), "semantic": ty.TObj("SemanticAnalyzer", only=("SemanticAnalyzer",))},
                   "self.parent": {"param_values": _MAP, "signal_refs": _MAP},
                   "self.semantic": {"current_scope": ty.TObj("SymbolTable", only=("SymbolTable",))}},
    returns=ty.TOpt(ty.Int),
    properties=("C15", "C16", "C17", "C09"), min_obligations=5, no_replay=True,
)

CONTRACTS = [resolve, scope_lookup]

# =================================================================================================
# ExpressionLowerer.lower_identifier: a name denotes its innermost binding (parameter before caller variable), and
# only a read of a caller VARIABLE marks that name as referenced (C20: a parameter read inside an inlined body must not
# hide a top-level result of the same spelling; C03-1-style copies: the binding itself is returned, not a fresh copy).
# =================================================================================================
def _ident_post(a, res):
    P, S = a.self.parent.param_values, a.self.parent.signal_refs
    R_old, R_new = a.old.self.parent.referenced_signal_names, a.self.parent.referenced_signal_names
    n = a.expr.name
    inP, inS = z3.Select(P.present, n), z3.Select(S.present, n)
    k = z3.String("any_name")
    frame_same = z3.ForAll([k], z3.Select(R_new.member, k) == z3.Select(R_old.member, k))
    frame_add = z3.ForAll([k], z3.Select(R_new.member, k) == Or(z3.Select(R_old.member, k), k == n))
    def is_int_of(M):
        return And(z3.Select(M.isint, n), ops.eq(res, z3.Select(M.ival, n))) if not isinstance(res, SObj) else Not(z3.Select(M.isint, n))
    return And(Implies(inP, And(frame_same, is_int_of(P))),
               Implies(And(Not(inP), inS), And(frame_add, is_int_of(S))),
               Implies(And(Not(inP), Not(inS)), frame_same))


ident = Contract(
    qualname=EL + "lower_identifier",
    params={"self": ty.TObj("ExpressionLowerer", only=("ExpressionLowerer",)), "expr": ty.TObj("IdentifierExpr", only=("IdentifierExpr",))},
    ensures=[("innermost binding; only a caller-variable read is recorded as a reference", _ident_post)],
    uses={"ExpressionLowerer._error": "skip", "IRBuilder.const": "skip", "IRBuilder.allocate_implicit_type": "skip",
          "opaque.const": "skip", "opaque.allocate_implicit_type": "skip"},
    dynamic_types={"self": {"parent": ty.TObj("ASTLowerer", only=("ASTLowerer",)), "ir_builder": ty.TOpaque("builder")},
                   "self.parent": {"param_values": _MAP, "signal_refs": _MAP, "referenced_signal_names": ty.TSet(ty.Str)},
                   "expr": {"name": ty.Str}},
    properties=("C15", "C20", "C16"), min_obligations=3, no_replay=True,
)
CONTRACTS.append(ident)
