"""C09 contracts: a user `place(...)` becomes exactly one placement with the user's prototype, position and properties."""
from __future__ import annotations

import z3

from pyvc import types as ty
from pyvc.contract import Contract
from pyvc.values import SObj
from spec import ops
from spec.ops import And, Implies, Not, Or

EP = "dsl_compiler/src/layout/entity_placer.py::EntityPlacer."
_OPQ = ty.TOpaque("x")
ADDED = []


def _add_effect(ex, a):
    ADDED.append(a.placement)
    return None


add_placement = Contract(qualname="dsl_compiler/src/layout/layout_plan.py::LayoutPlan.add_placement", params={"self": _OPQ, "placement": _OPQ},
                         effect=_add_effect, verify=False, note="records the placement in the plan (dictionary insert keyed by ir_node_id)")
footprint = Contract(qualname="dsl_compiler/src/common/entity_data.py::EntityDataHelper.get_footprint", params={"prototype": _OPQ},
                     effect=lambda ex, a: (z3.Int("fp_w"), z3.Int("fp_h")), verify=False, note="game data lookup (S4 checks the result end to end)")
alignment = Contract(qualname="dsl_compiler/src/common/entity_data.py::EntityDataHelper.get_alignment", params={"prototype": _OPQ},
                     effect=lambda ex, a: z3.Int("align"), verify=False, note="game data lookup")


def _post(a, res):
    if len(ADDED) != 1:
        return False
    p = ADDED[0]
    op = a.op
    both_int = (not isinstance(op.x, SObj)) and (not isinstance(op.y, SObj))
    cs = [p.ir_node_id is op.entity_id, p.entity_type is op.prototype, p.role == "user_entity"]
    if both_int:
        cs += [isinstance(p.position, tuple) and len(p.position) == 2, ops.eq(p.position[0], op.x) if isinstance(p.position, tuple) else False,
               ops.eq(p.position[1], op.y) if isinstance(p.position, tuple) else False,
               p.properties.get("user_specified_position") is True]
    else:
        cs += [p.position is None, "user_specified_position" not in p.properties]
    return And(*cs)


place_user = Contract(
    qualname=EP + "_place_user_entity",
    params={"self": ty.TObj("EntityPlacer", only=("EntityPlacer",)), "op": ty.TObj("IRPlaceEntity", only=("IRPlaceEntity",))},
    requires=[("(reset capture)", lambda a: ADDED.clear() or True)],
    ensures=[("exactly one placement: the user's prototype, at the user's tile when both coordinates are integers", _post)],
    uses={"LayoutPlan.add_placement": add_placement, "opaque.add_placement": add_placement, "EntityDataHelper.get_footprint": footprint, "EntityDataHelper.get_alignment": alignment},
    dynamic_types={"self": {"plan": ty.TObj("LayoutPlan", only=("LayoutPlan",))},
                   "op": {"x": ty.TUnion((ty.Int, ty.TObj("SignalRef", only=("SignalRef",)))), "y": ty.TUnion((ty.Int, ty.TObj("SignalRef", only=("SignalRef",)))),
                          "properties": ty.TConcrete({}), "entity_id": ty.Str, "prototype": ty.Str, "source_ast": ty.TConcrete(None)}},
    properties=("C09",), min_obligations=2, no_replay=True,
)
CONTRACTS = [place_user, add_placement, footprint, alignment]

# =================================================================================================
# ExpressionLowerer._try_extract_const_value (coordinates of place()): an integer is returned exactly for
# literal ints, constant nodes and arithmetic nodes over such values, and it is the S1 value of that tree
# (0 and negative results included); everything else is "not constant" (None).
# =================================================================================================
from contracts import c11 as _c11  # noqa: E402
from pyvc.ghost import ghost, isa  # noqa: E402
from spec import arith32 as A  # noqa: E402

EL = "dsl_compiler/src/lowering/expression_lowerer.py::ExpressionLowerer."
_VREF = ty.TUnion((ty.Int, ty.TObj("SignalRef", only=("SignalRef", "BundleRef"))))
_NODE = ty.TOpt(ty.TObj("IRNode", only=("IRConst", "IRArith", "IRDecider"), ftypes=(
    ("value", ty.Int), ("left", _VREF), ("right", _VREF), ("op", ty.Str), ("source_ast", ty.TOpt(ty.TObj("BinaryOp", only=("BinaryOp",)))))))


def cval(ref):
    """ghost: the constant value of a reference (None = not a compile-time constant)"""
    if isinstance(ref, SObj):
        return ghost(ref, "cval", ty.TOpt(ty.Int))
    return ref


def _get_op(ex, a):
    ref = ex.args_ns.value_ref
    return ghost(ref, "node", _NODE)


get_operation = Contract(qualname="dsl_compiler/src/ir/builder.py::IRBuilder.get_operation", params={"self": _OPQ, "node_id": _OPQ}, effect=_get_op, verify=False,
                         note="dictionary lookup: the producer node of the reference")
rec_call = Contract(qualname=EL + "_try_extract_const_value", params={"self": _OPQ, "value_ref": _OPQ}, effect=lambda ex, a: cval(a.value_ref), verify=False,
                    note="recursive call by contract (induction over the finite IR tree)")


def _i32o(v):
    return True if v is None else A.i32(v)


def _extract_post(a, res):
    ref = a.value_ref
    if not isinstance(ref, SObj):
        return ops.eq(res, ref) if res is not None else False
    if not isa(ref, "SignalRef"):
        return res is None
    node = ref._fields.get("@node")
    if node is None:
        return res is None
    if isa(node, "IRConst"):
        return False if res is None else res == node.value
    if isa(node, "IRArith"):
        l, r = cval(node.left), cval(node.right)
        if l is None or r is None or node.source_ast is None:
            return res is None
        # both constant: the result is what the verified folder returns for (op, l, r): its contract gives the S1 value
        tags = _c11.ALL_TAGS
        cs = [Implies(node.op == t, _c11.fold_spec(t, l, r, res) if res is not None else False) for t in tags]
        cs.append(Implies(And(*[node.op != t for t in tags]), res is None))
        return And(*cs)
    return res is None


def _operands_i32(a):
    ref = a.value_ref
    if not isinstance(ref, SObj):
        return A.i32(ref)
    node = ghost(ref, "node", _NODE)
    if node is None or not isa(node, "IRArith"):
        return True
    return And(_i32o(cval(node.left)), _i32o(cval(node.right)))


extract_coord = Contract(
    qualname=EL + "_try_extract_const_value",
    params={"self": ty.TObj("ExpressionLowerer", only=("ExpressionLowerer",)), "value_ref": _VREF},
    requires=[("constant operands are int32", lambda a: _operands_i32(a))],
    ensures=[("an int exactly for constant trees, equal to the tree's S1 value; otherwise None", _extract_post)],
    uses={"IRBuilder.get_operation": get_operation, "ExpressionLowerer._try_extract_const_value": rec_call,
          "ConstantFolder.fold_binary_operation": _c11._fold_callee},
    dynamic_types={"self": {"ir_builder": ty.TObj("IRBuilder", only=("IRBuilder",)), "parent": ty.TOpaque("parent"), "diagnostics": ty.TOpaque("diag")}},
    returns=ty.TOpt(ty.Int), properties=("C09", "C11"), min_obligations=4, no_replay=True,
)
CONTRACTS += [extract_coord, get_operation, rec_call]

# =================================================================================================
# LayoutPlanner._trim_power_poles: only poles the compiler added itself (is_power_pole) may be removed — a
# user-placed entity, a user-placed pole of the grid's own prototype included, always stays; a grid pole goes
# exactly when no non-pole entity lies within the supply square.  (Plan of 3 placements: bounded size.)
# =================================================================================================
LP = "dsl_compiler/src/layout/planner.py::LayoutPlanner."
_POS = ty.TTuple((ty.Int, ty.Int))


def _plc(is_pole, proto):
    props = (("is_power_pole", ty.TConcrete(True)),) if is_pole else ()
    return ty.TObj("EntityPlacement", only=("EntityPlacement",), ftypes=(("position", _POS), ("entity_type", ty.TConcrete(proto)),
                                                                          ("properties", ty.TRecord(props))))


def _trim_post(radius):
    def post(a, res):
        plan = a.self.layout_plan
        d = plan.entity_placements
        old = CAPT["before"]
        cs = ["user_pole" in d, "lamp" in d]
        g, lamp, up = old["grid_pole"], old["lamp"], old["user_pole"]
        def near(p, q):
            return And(ops.absv(p.position[0] - q.position[0]) <= radius, ops.absv(p.position[1] - q.position[1]) <= radius)
        covers = Or(near(lamp, g), near(up, g))
        cs.append(covers if "grid_pole" in d else Not(covers))
        return And(*cs)
    return post


CAPT = {}


def _remember(a):
    CAPT["before"] = dict(a.self.layout_plan.entity_placements)
    return True


for _pt, _proto, _rad in (("small", "small-electric-pole", 2.5), ("medium", "medium-electric-pole", 3.5), ("big", "big-electric-pole", 5), ("substation", "substation", 9)):
    CONTRACTS.append(Contract(
        qualname=LP + "_trim_power_poles",
        params={"self": ty.TObj("LayoutPlanner", only=("LayoutPlanner",))},
        requires=[("(remember the plan)", _remember)],
        ensures=[("user-placed entities (poles of the grid's prototype included) stay; a grid pole stays iff it covers a non-pole entity", _trim_post(_rad))],
        uses={"opaque.info": "skip"},
        dynamic_types={"self": {"power_pole_type": ty.TConcrete(_pt), "layout_plan": ty.TObj("LayoutPlan", only=("LayoutPlan",)), "diagnostics": ty.TOpaque("diag")},
                       "self.layout_plan": {"entity_placements": ty.TRecord((("lamp", _plc(False, "small-lamp")), ("user_pole", _plc(False, _proto)),
                                                                              ("grid_pole", _plc(True, _proto)))),
                                            "power_poles": ty.TConcrete([])}},
        properties=("C09", "C18"), min_obligations=1, no_replay=True, note=f"--power-poles {_pt}; plan of 3 placements"))
