"""C09 contracts: a user `place(...)` becomes exactly one placement with the user's prototype, position and properties."""
from __future__ import annotations

import z3

from pyvc import types as ty
from pyvc.contract import Contract
from pyvc.values import SObj, fresh_name
from spec import ops
from spec.ops import And, Implies, Not, Or

EP = "dsl_compiler/src/layout/entity_placer.py::EntityPlacer."
_OPQ = ty.TOpaque("x")
ADDED = []


def _add_effect(ex, a):
    ADDED.append(a.placement)
    return None


add_placement = Contract(qualname="dsl_compiler/src/layout/layout_plan.py::LayoutPlan.add_placement", params={"self": _OPQ, "placement": _OPQ},
                         effect=_add_effect, verify=False, note="records the placement in the plan (dictionary insert keyed by ir_node_id)")
footprint = Contract(qualname="dsl_compiler/src/common/entity_data.py::EntityDataHelper.get_footprint", params={"prototype": _OPQ},
                     effect=lambda ex, a: (z3.Int("fp_w"), z3.Int("fp_h")), verify=False, note="game data lookup (S4 checks the result end to end)")
alignment = Contract(qualname="dsl_compiler/src/common/entity_data.py::EntityDataHelper.get_alignment", params={"prototype": _OPQ},
                     effect=lambda ex, a: z3.Int("align"), verify=False, note="game data lookup")


def _post(a, res):
    if len(ADDED) != 1:
        return False
    p = ADDED[0]
    op = a.op
    both_int = (not isinstance(op.x, SObj)) and (not isinstance(op.y, SObj))
    cs = [p.ir_node_id is op.entity_id, p.entity_type is op.prototype, p.role == "user_entity"]
    if both_int:
        cs += [isinstance(p.position, tuple) and len(p.position) == 2, ops.eq(p.position[0], op.x) if isinstance(p.position, tuple) else False,
               ops.eq(p.position[1], op.y) if isinstance(p.position, tuple) else False,
               p.properties.get("user_specified_position") is True]
    else:
        cs += [p.position is None, "user_specified_position" not in p.properties]
    return And(*cs)


place_user = Contract(
    qualname=EP + "_place_user_entity",
    params={"self": ty.TObj("EntityPlacer", only=("EntityPlacer",)), "op": ty.TObj("IRPlaceEntity", only=("IRPlaceEntity",))},
    requires=[("(reset capture)", lambda a: ADDED.clear() or True)],
    ensures=[("exactly one placement: the user's prototype, at the user's tile when both coordinates are integers", _post)],
    uses={"LayoutPlan.add_placement": add_placement, "opaque.add_placement": add_placement, "EntityDataHelper.get_footprint": footprint, "EntityDataHelper.get_alignment": alignment},
    dynamic_types={"self": {"plan": ty.TObj("LayoutPlan", only=("LayoutPlan",))},
                   "op": {"x": ty.TUnion((ty.Int, ty.TObj("SignalRef", only=("SignalRef",)))), "y": ty.TUnion((ty.Int, ty.TObj("SignalRef", only=("SignalRef",)))),
                          "properties": ty.TConcrete({}), "entity_id": ty.Str, "prototype": ty.Str, "source_ast": ty.TConcrete(None)}},
    properties=("C09",), min_obligations=2, no_replay=True,
)
CONTRACTS = [place_user, add_placement, footprint, alignment]

# =================================================================================================
# ExpressionLowerer._try_extract_const_value (coordinates of place()): an integer is returned exactly for
# literal ints, constant nodes and arithmetic nodes over such values, and it is the S1 value of that tree
# (0 and negative results included); everything else is "not constant" (None).
# =================================================================================================
from contracts import c11 as _c11  # noqa: E402
from pyvc.ghost import ghost, isa  # noqa: E402
from spec import arith32 as A  # noqa: E402

EL = "dsl_compiler/src/lowering/expression_lowerer.py::ExpressionLowerer."
_VREF = ty.TUnion((ty.Int, ty.TObj("SignalRef", only=("SignalRef", "BundleRef"))))
_NODE = ty.TOpt(ty.TObj("IRNode", only=("IRConst", "IRArith", "IRDecider"), ftypes=(
    ("value", ty.Int), ("left", _VREF), ("right", _VREF), ("op", ty.Str), ("source_ast", ty.TOpt(ty.TObj("BinaryOp", only=("BinaryOp",)))))))


def cval(ref):
    """ghost: the constant value of a reference (None = not a compile-time constant)"""
    if isinstance(ref, SObj):
        return ghost(ref, "cval", ty.TOpt(ty.Int))
    return ref


def _get_op(ex, a):
    ref = ex.args_ns.value_ref
    return ghost(ref, "node", _NODE)


get_operation = Contract(qualname="dsl_compiler/src/ir/builder.py::IRBuilder.get_operation", params={"self": _OPQ, "node_id": _OPQ}, effect=_get_op, verify=False,
                         note="dictionary lookup: the producer node of the reference")
rec_call = Contract(qualname=EL + "_try_extract_const_value", params={"self": _OPQ, "value_ref": _OPQ}, effect=lambda ex, a: cval(a.value_ref), verify=False,
                    note="recursive call by contract (induction over the finite IR tree)")


def _i32o(v):
    return True if v is None else A.i32(v)


def _extract_post(a, res):
    ref = a.value_ref
    if not isinstance(ref, SObj):
        return ops.eq(res, ref) if res is not None else False
    if not isa(ref, "SignalRef"):
        return res is None
    node = ref._fields.get("@node")
    if node is None:
        return res is None
    if isa(node, "IRConst"):
        return False if res is None else res == node.value
    if isa(node, "IRArith"):
        l, r = cval(node.left), cval(node.right)
        if l is None or r is None or node.source_ast is None:
            return res is None
        # both constant: the result is what the verified folder returns for (op, l, r): its contract gives the S1 value
        tags = _c11.ALL_TAGS
        cs = [Implies(node.op == t, _c11.fold_spec(t, l, r, res) if res is not None else False) for t in tags]
        cs.append(Implies(And(*[node.op != t for t in tags]), res is None))
        return And(*cs)
    return res is None


def _operands_i32(a):
    ref = a.value_ref
    if not isinstance(ref, SObj):
        return A.i32(ref)
    node = ghost(ref, "node", _NODE)
    if node is None or not isa(node, "IRArith"):
        return True
    return And(_i32o(cval(node.left)), _i32o(cval(node.right)))


extract_coord = Contract(
    qualname=EL + "_try_extract_const_value",
    params={"self": ty.TObj("ExpressionLowerer", only=("ExpressionLowerer",)), "value_ref": _VREF},
    requires=[("constant operands are int32", lambda a: _operands_i32(a))],
    ensures=[("an int exactly for constant trees, equal to the tree's S1 value; otherwise None", _extract_post)],
    uses={"IRBuilder.get_operation": get_operation, "ExpressionLowerer._try_extract_const_value": rec_call,
          "ConstantFolder.fold_binary_operation": _c11._fold_callee},
    dynamic_types={"self": {"ir_builder": ty.TObj("IRBuilder", only=("IRBuilder",)), "parent": ty.TOpaque("parent"), "diagnostics": ty.TOpaque("diag")}},
    returns=ty.TOpt(ty.Int), properties=("C09", "C11"), min_obligations=4, no_replay=True,
)
CONTRACTS += [extract_coord, get_operation, rec_call]

# =================================================================================================
# LayoutPlanner._trim_power_poles: only poles the compiler added itself (is_power_pole) may be removed — a
# user-placed entity, a user-placed pole of the grid's own prototype included, always stays; a grid pole goes
# exactly when no non-pole entity lies within the supply square.  (Plan of 3 placements: bounded size.)
# =================================================================================================
LP = "dsl_compiler/src/layout/planner.py::LayoutPlanner."
_POS = ty.TTuple((ty.Int, ty.Int))


def _plc(is_pole, proto):
    props = (("is_power_pole", ty.TConcrete(True)),) if is_pole else ()
    return ty.TObj("EntityPlacement", only=("EntityPlacement",), ftypes=(("position", _POS), ("entity_type", ty.TConcrete(proto)),
                                                                          ("properties", ty.TRecord(props))))


def _trim_post(radius):
    def post(a, res):
        plan = a.self.layout_plan
        d = plan.entity_placements
        old = CAPT["before"]
        cs = ["user_pole" in d, "lamp" in d]
        g, lamp, up = old["grid_pole"], old["lamp"], old["user_pole"]
        def near(p, q):
            return And(ops.absv(p.position[0] - q.position[0]) <= radius, ops.absv(p.position[1] - q.position[1]) <= radius)
        covers = Or(near(lamp, g), near(up, g))
        cs.append(covers if "grid_pole" in d else Not(covers))
        return And(*cs)
    return post


CAPT = {}


def _remember(a):
    CAPT["before"] = dict(a.self.layout_plan.entity_placements)
    return True


for _pt, _proto, _rad in (("small", "small-electric-pole", 2.5), ("medium", "medium-electric-pole", 3.5), ("big", "big-electric-pole", 5), ("substation", "substation", 9)):
    CONTRACTS.append(Contract(
        qualname=LP + "_trim_power_poles",
        params={"self": ty.TObj("LayoutPlanner", only=("LayoutPlanner",))},
        requires=[("(remember the plan)", _remember)],
        ensures=[("user-placed entities (poles of the grid's prototype included) stay; a grid pole stays iff it covers a non-pole entity", _trim_post(_rad))],
        uses={"opaque.info": "skip"},
        dynamic_types={"self": {"power_pole_type": ty.TConcrete(_pt), "layout_plan": ty.TObj("LayoutPlan", only=("LayoutPlan",)), "diagnostics": ty.TOpaque("diag")},
                       "self.layout_plan": {"entity_placements": ty.TRecord((("lamp", _plc(False, "small-lamp")), ("user_pole", _plc(False, _proto)),
                                                                              ("grid_pole", _plc(True, _proto)))),
                                            "power_poles": ty.TConcrete([])}},
        properties=("C09", "C18"), min_obligations=1, no_replay=True, note=f"--power-poles {_pt}; plan of 3 placements"))


# =================================================================================================
# ExpressionLowerer._extract_coordinate: a coordinate of place() is the integer its expression denotes at compile time whenever
# _try_extract_const_value (contract above) finds one — and then the nodes that computed it are taken out of the blueprint —
# otherwise the lowered reference itself (a position left to the layout).
# IntegerLayoutEngine._identify_fixed_positions / _create_position_variables (bounded stand-in, real objects incl. a real
# CP-SAT model): a user-placed entity is fixed at the integer tile the user gave, a grid pole at the tile under its centre, every
# other entity is free in [0, max_coord]; a fixed entity's two CP-SAT variables have exactly that one value in their domain (so NO
# solver outcome can move it), a free one the full range.
# =================================================================================================
XC = {}


def _xc_lower(ex, a):
    XC.setdefault("lowered", []).append(a.expr)
    return ghost(a.expr, "lowered", _VREF)


def _xc_const(ex, a):
    return ghost(ex.args_ns.coord_expr, "const", ty.TOpt(ty.Int))


def _xc_post(a, res):
    low = a.coord_expr._fields.get("@lowered")
    c = a.coord_expr._fields.get("@const")
    if len(XC.get("lowered", [])) != 1:
        return False
    if c is not None:
        if isinstance(res, SObj) or res is None:
            return False
        return And(ops.eq(res, c), len(XC.get("suppressed", [])) == 1 and XC["suppressed"][0] is low)
    return res is low and not XC.get("suppressed")


CONTRACTS.append(Contract(
    qualname=EL + "_extract_coordinate", params={"self": ty.TObj("ExpressionLowerer", only=("ExpressionLowerer",)), "coord_expr": ty.TObj("Expr", only=("NumberLiteral", "BinaryOp", "IdentifierExpr"))},
    requires=[("(reset capture)", lambda a: XC.clear() or True)],
    ensures=[("the compile-time value when there is one (its nodes suppressed), else the lowered reference", _xc_post)],
    uses={"ExpressionLowerer.lower_expr": Contract(qualname=EL + "lower_expr", params={"self": _OPQ, "expr": _OPQ}, effect=_xc_lower, verify=False, note="the lowered value of the expression"),
          "ExpressionLowerer._try_extract_const_value": Contract(qualname=EL + "_try_extract_const_value", params={"self": _OPQ, "value_ref": _OPQ}, effect=_xc_const, verify=False,
                                                                 note="proved above: the S1 value of a constant tree, None otherwise"),
          "ExpressionLowerer._suppress_value_ref_materialization": Contract(qualname=EL + "_suppress_value_ref_materialization", params={"self": _OPQ, "value_ref": _OPQ},
                                                                            effect=lambda ex, a: XC.setdefault("suppressed", []).append(a.value_ref), verify=False,
                                                                            note="marks the nodes behind the reference as not to be materialised")},
    properties=("C09",), min_obligations=2, no_replay=True))

FPQ = "dsl_compiler/src/layout/integer_layout_solver.py::IntegerLayoutEngine._identify_fixed_positions"


def _fixed_post(a, res):
    me = a.self
    sc = me._scenario
    if dict(me.fixed_positions) != sc["fixed"]:
        return False
    from ortools.sat.python import cp_model
    model = cp_model.CpModel()
    pos = me._create_position_variables(model, sc["max_coord"])
    for eid in me.entity_ids:
        x, y = pos[eid]
        vs = model.Proto().variables
        dx, dy = list(vs[x.Index()].domain), list(vs[y.Index()].domain)
        if eid in sc["fixed"]:
            fx, fy = sc["fixed"][eid]
            if dx != [fx, fx] or dy != [fy, fy]:
                return False
        elif dx != [0, sc["max_coord"]] or dy != [0, sc["max_coord"]]:
            return False
    return set(pos) == set(me.entity_ids)


fixed_positions = Contract(qualname=FPQ, params={"self": ty.TOpaque("engine")},
                           ensures=[("user entities fixed at the user's tile, grid poles at the tile under their centre, the rest free; CP-SAT domains are exactly that", _fixed_post)],
                           verify=False, properties=("C09", "C08"), note="evaluated on the real methods over an enumerated box (bounded stand-in)")
CONTRACTS.append(fixed_positions)


def fixed_positions_arg_sets():
    import itertools
    from dsl_compiler.src.layout.integer_layout_solver import IntegerLayoutEngine
    from dsl_compiler.src.layout.layout_plan import LayoutPlan

    class _Diag:
        def info(self, *a, **k):
            pass
        warning = error = info

    out = []
    coords = (0, 1, 7, 40, 199)
    for (ux, uy), (fw, fh), pole_c, free_has_pos in itertools.product(itertools.product(coords, (0, 3, 120)), ((1, 1), (2, 2), (3, 3)), ((6.5, 6.5), (12.0, 4.0), (0.5, 30.5)), (False, True)):
        plan = LayoutPlan()
        plan.create_and_add_placement(ir_node_id="user", entity_type="small-lamp", position=(ux, uy), footprint=(fw, fh), role="user_entity", debug_info={}, user_specified_position=True)
        pw = 2 if pole_c == (12.0, 4.0) else 1
        plan.create_and_add_placement(ir_node_id="pole", entity_type="medium-electric-pole" if pw == 1 else "substation", position=pole_c, footprint=(pw, pw), role="power_pole",
                                      debug_info={}, fixed_position=True)
        plan.create_and_add_placement(ir_node_id="free", entity_type="arithmetic-combinator", position=((5, 5) if free_has_pos else None), footprint=(1, 2), role="arithmetic", debug_info={})
        eng = object.__new__(IntegerLayoutEngine)
        eng.entity_placements, eng.diagnostics = plan.entity_placements, _Diag()
        eng.entity_ids = sorted(plan.entity_placements)
        fixed = {"user": (ux, uy), "pole": (int(round(pole_c[0] - pw / 2.0)), int(round(pole_c[1] - pw / 2.0)))}
        eng._scenario = {"fixed": fixed, "max_coord": 200}
        out.append({"self": eng})
    return out


# =================================================================================================
# place(prototype, x, y[, properties]) (C09):
#   _extract_place_coordinates   x from the SECOND argument, y from the THIRD (each by _extract_coordinate, contract above)
#   _lower_place_core            one IRPlaceEntity with a fresh id, the literal prototype, those coordinates in that order and the lowered
#                                properties; the value returned stands for the entity and never becomes a combinator (its materialisation
#                                is suppressed); fewer than three arguments or a non-literal prototype are reported and place nothing
# =================================================================================================
PC = {}


def _pc_coord(ex, a):
    PC.setdefault("coord_of", []).append(a.coord_expr)
    return ghost(a.coord_expr, "coordinate", _VREF)


def _pc_place(ex, a):
    PC.setdefault("placed", []).append(a)
    return None


def _pc_const(ex, a):
    r = SObj(["SignalRef"], fresh_name("entity_value"), lazy=False)
    r._fields.update({"signal_type": a.signal_type, "source_id": z3.String(fresh_name("entity_value_id"))})
    PC.setdefault("consts", []).append(r)
    return r


def _pc_get_op(ex, a):
    for r in PC.get("consts", []):
        if a.node_id is r.source_id:
            n = r._fields.get("@node")
            if n is None:
                n = SObj(["IRConst"], fresh_name("entity_value_node"), lazy=False)
                n._fields["debug_metadata"] = {}
                r._fields["@node"] = n
            return n
    raise NotImplementedError("lookup of another node")


_pc_coord_c = Contract(qualname=EL + "_extract_coordinate", params={"self": _OPQ, "coord_expr": _OPQ}, effect=_pc_coord, verify=False, note="proved above")
_PC_USES = {"ExpressionLowerer._extract_coordinate": _pc_coord_c,
            "IRBuilder.place_entity": Contract(qualname="dsl_compiler/src/ir/builder.py::IRBuilder.place_entity", params={"self": _OPQ, "entity_id": _OPQ, "prototype": _OPQ, "x": _OPQ, "y": _OPQ,
                                                                                                                      "properties": _OPQ, "source_ast": _OPQ},
                                               defaults={"properties": None, "source_ast": None}, effect=_pc_place, verify=False, note="verified separately (contracts.c02): one IRPlaceEntity with these arguments"),
            "IRBuilder.const": Contract(qualname="dsl_compiler/src/ir/builder.py::IRBuilder.const", params={"self": _OPQ, "signal_type": _OPQ, "value": _OPQ, "source_ast": _OPQ},
                                        defaults={"source_ast": None}, effect=_pc_const, verify=False, note="verified separately (contracts.c02)"),
            "IRBuilder.get_operation": Contract(qualname="dsl_compiler/src/ir/builder.py::IRBuilder.get_operation", params={"self": _OPQ, "node_id": _OPQ}, effect=_pc_get_op, verify=False,
                                                note="dictionary lookup: the node of the constant just created"),
            "IRBuilder.allocate_implicit_type": Contract(qualname="dsl_compiler/src/ir/builder.py::IRBuilder.allocate_implicit_type", params={"self": _OPQ}, effect=lambda ex, a: z3.String("fresh_implicit_type"),
                                                         verify=False, note="fresh implicit type name"),
            "IRBuilder.next_id": Contract(qualname="dsl_compiler/src/ir/builder.py::IRBuilder.next_id", params={"self": _OPQ, "prefix": _OPQ}, defaults={"prefix": "ir"},
                                          effect=lambda ex, a: z3.String("fresh_id"), verify=False, note="fresh node id"),
            "ExpressionLowerer.lower_dict_literal": Contract(qualname=EL + "lower_dict_literal", params={"self": _OPQ, "expr": _OPQ}, effect=lambda ex, a: PC.setdefault("props", {"lowered-from": a.expr}),
                                                             verify=False, note="the lowered property dictionary"),
            "ExpressionLowerer._error": Contract(qualname=EL + "_error", params={"self": _OPQ, "message": _OPQ, "node": _OPQ}, defaults={"node": None},
                                                 effect=lambda ex, a: PC.setdefault("errors", []).append(a.message), verify=False, note="records a compile error"),
            "ExpressionLowerer._extract_place_prototype": "inline", "ExpressionLowerer._extract_place_coordinates": "inline", "ExpressionLowerer._extract_place_properties": "inline",
            "ExpressionLowerer.ir_builder": "inline"}
_PC_DYN = {"self": {"parent": ty.TObj("ASTLowerer", only=("ASTLowerer",))}, "self.parent": {"ir_builder": ty.TObj("IRBuilder", only=("IRBuilder",))}}
_ARG = ty.TObj("Expr", only=("NumberLiteral", "IdentifierExpr", "BinaryOp"))
_PROTO = ty.TObj("StringLiteral", only=("StringLiteral",), ftypes=(("value", ty.Str),))


def _coords_post(a, res):
    e = a.expr
    return (isinstance(res, tuple) and len(res) == 2 and PC.get("coord_of") is not None and len(PC["coord_of"]) == 2 and PC["coord_of"][0] is e.args[1] and PC["coord_of"][1] is e.args[2]
            and res[0] is e.args[1]._fields.get("@coordinate") and res[1] is e.args[2]._fields.get("@coordinate"))


CONTRACTS.append(Contract(
    qualname=EL + "_extract_place_coordinates",
    params={"self": ty.TObj("ExpressionLowerer", only=("ExpressionLowerer",)), "expr": ty.TObj("CallExpr", only=("CallExpr",), ftypes=(("args", ty.TTuple((_PROTO, _ARG, _ARG))),))},
    requires=[("(reset capture)", lambda a: PC.clear() or True)],
    ensures=[("x is the coordinate of the second argument, y of the third", _coords_post)],
    uses=_PC_USES, dynamic_types=_PC_DYN, properties=("C09",), min_obligations=1, no_replay=True))


def _place_core_post(nargs, literal_proto):
    def post(a, res):
        e = a.expr
        placed = PC.get("placed", [])
        if nargs < 3 or not literal_proto:
            return not placed and len(PC.get("errors", [])) == 1 and isinstance(res, tuple) and res[0] == "error_entity"
        if len(placed) != 1 or not isinstance(res, tuple) or len(res) != 2:
            return False
        p = placed[0]
        x, y = e.args[1]._fields.get("@coordinate"), e.args[2]._fields.get("@coordinate")
        value_ref = res[1]
        node = value_ref._fields.get("@node") if isinstance(value_ref, SObj) else None
        ok = [p.prototype is e.args[0].value, p.x is x, p.y is y, p.entity_id is res[0] or ops.eq(p.entity_id, res[0]) is not False,
              node is not None and node._fields["debug_metadata"].get("suppress_materialization") is True, not PC.get("errors")]
        if nargs == 4:
            ok.append(p.properties is PC.get("props") and PC["props"]["lowered-from"] is e.args[3])
        else:
            ok.append(p.properties is None)
        return all(bool(x_) if isinstance(x_, bool) else True for x_ in ok) and all(x_ is not False for x_ in ok)
    return post


for _n, _lit in ((2, True), (3, True), (4, True), (3, False)):
    _args = [(_PROTO if _lit else ty.TObj("Expr", only=("IdentifierExpr",))), _ARG, _ARG, ty.TObj("DictLiteral", only=("DictLiteral",))][:_n]
    CONTRACTS.append(Contract(
        qualname=EL + "_lower_place_core",
        params={"self": ty.TObj("ExpressionLowerer", only=("ExpressionLowerer",)), "expr": ty.TObj("CallExpr", only=("CallExpr",), ftypes=(("args", ty.TTuple(tuple(_args))),))},
        requires=[("(reset capture)", lambda a: PC.clear() or True)],
        ensures=[("one placement: the literal prototype, x and y in this order, the lowered properties; the entity's value is never materialised; malformed calls place nothing", _place_core_post(_n, _lit))],
        uses=_PC_USES, dynamic_types=_PC_DYN, properties=("C09",), min_obligations=1, no_replay=True, note=f"{_n} arguments, prototype {'literal' if _lit else 'not a literal'}"))
