"""C09 contracts: a user `place(...)` becomes exactly one placement with the user's prototype, position and properties."""
from __future__ import annotations

import z3

from pyvc import types as ty
from pyvc.contract import Contract
from pyvc.values import SObj
from spec import ops
from spec.ops import And, Implies, Not, Or

EP = "dsl_compiler/src/layout/entity_placer.py::EntityPlacer."
_OPQ = ty.TOpaque("x")
ADDED = []


def _add_effect(ex, a):
    ADDED.append(a.placement)
    return None


add_placement = Contract(qualname="dsl_compiler/src/layout/layout_plan.py::LayoutPlan.add_placement", params={"self": _OPQ, "placement": _OPQ},
                         effect=_add_effect, verify=False, note="records the placement in the plan (dictionary insert keyed by ir_node_id)")
footprint = Contract(qualname="dsl_compiler/src/common/entity_data.py::EntityDataHelper.get_footprint", params={"prototype": _OPQ},
                     effect=lambda ex, a: (z3.Int("fp_w"), z3.Int("fp_h")), verify=False, note="game data lookup (S4 checks the result end to end)")
alignment = Contract(qualname="dsl_compiler/src/common/entity_data.py::EntityDataHelper.get_alignment", params={"prototype": _OPQ},
                     effect=lambda ex, a: z3.Int("align"), verify=False, note="game data lookup")


def _post(a, res):
    if len(ADDED) != 1:
        return False
    p = ADDED[0]
    op = a.op
    both_int = (not isinstance(op.x, SObj)) and (not isinstance(op.y, SObj))
    cs = [p.ir_node_id is op.entity_id, p.entity_type is op.prototype, p.role == "user_entity"]
    if both_int:
        cs += [isinstance(p.position, tuple) and len(p.position) == 2, ops.eq(p.position[0], op.x) if isinstance(p.position, tuple) else False,
               ops.eq(p.position[1], op.y) if isinstance(p.position, tuple) else False,
               p.properties.get("user_specified_position") is True]
    else:
        cs += [p.position is None, "user_specified_position" not in p.properties]
    return And(*cs)


place_user = Contract(
    qualname=EP + "_place_user_entity",
    params={"self": ty.TObj("EntityPlacer", only=("EntityPlacer",)), "op": ty.TObj("IRPlaceEntity", only=("IRPlaceEntity",))},
    requires=[("(reset capture)", lambda a: ADDED.clear() or True)],
    ensures=[("exactly one placement: the user's prototype, at the user's tile when both coordinates are integers", _post)],
    uses={"LayoutPlan.add_placement": add_placement, "opaque.add_placement": add_placement, "EntityDataHelper.get_footprint": footprint, "EntityDataHelper.get_alignment": alignment},
    dynamic_types={"self": {"plan": ty.TObj("LayoutPlan", only=("LayoutPlan",))},
                   "op": {"x": ty.TUnion((ty.Int, ty.TObj("SignalRef", only=("SignalRef",)))), "y": ty.TUnion((ty.Int, ty.TObj("SignalRef", only=("SignalRef",)))),
                          "properties": ty.TConcrete({}), "entity_id": ty.Str, "prototype": ty.Str, "source_ast": ty.TConcrete(None)}},
    properties=("C09",), min_obligations=2, no_replay=True,
)
CONTRACTS = [place_user, add_placement, footprint, alignment]
