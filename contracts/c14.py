"""C14 contracts: ill-formed programs are rejected (exceptional postconditions)."""
from __future__ import annotations

import z3

from pyvc import types as ty
from pyvc.contract import Contract
from spec.ops import And, Implies, Not, Or

DIAG = "dsl_compiler/src/common/diagnostics.py::ProgramDiagnostics."
SYMT = "dsl_compiler/src/semantic/symbol_table.py::SymbolTable."

_DIAG_T = {"raise_errors": ty.Bool, "_error_count": ty.Int, "_warning_count": ty.Int, "default_stage": ty.Str,
           "diagnostics": ty.TOpaque("list")}

error_contract = Contract(
    qualname=DIAG + "error",
    params={"self": ty.TObj("ProgramDiagnostics"), "message": ty.Str, "stage": ty.TOpt(ty.Str), "line": ty.Int,
            "column": ty.Int, "source_file": ty.TOpt(ty.Str), "node": ty.TOpaque("node")},
    requires=[("error counter is a natural number", lambda a: a.self._error_count >= 0),
              ("flag exists", lambda a: Or(a.self.raise_errors, Not(a.self.raise_errors)))],
    ensures=[("returns only when errors do not raise", lambda a, res: Not(a.old.self.raise_errors)),
             ("error is counted", lambda a, res: a.self._error_count == a.old.self._error_count + 1),
             ("has_errors() holds afterwards", lambda a, res: a.self._error_count > 0)],
    raises={"RuntimeError": lambda a: a.old.self.raise_errors},
    uses={"ProgramDiagnostics._add": "skip"},
    dynamic_types={"self": _DIAG_T},
    properties=("C14",),
    min_obligations=4,
    note="ProgramDiagnostics._add only appends a record (frame {diagnostics}); logging calls are dropped by the extraction",
)

has_errors_contract = Contract(
    qualname=DIAG + "has_errors",
    params={"self": ty.TObj("ProgramDiagnostics")},
    ensures=[("true iff an error was counted", lambda a, res: res == (a.self._error_count > 0))],
    dynamic_types={"self": _DIAG_T},
    properties=("C14",),
)

_SYM_T = {"symbols": ty.TDict(ty.Str, ty.Int), "parent": ty.TOpt(ty.TObj("SymbolTable")), "children": ty.TOpaque("list")}


def _define_post(a, res):
    old = a.old.self.symbols
    new = a.self.symbols
    k = z3.String("anykey")
    name = a.symbol.name
    return And(
        z3.Select(new.present, name),
        z3.ForAll([k], Implies(k != name, And(z3.Select(new.present, k) == z3.Select(old.present, k),
                                               z3.Select(new.vals, k) == z3.Select(old.vals, k)))),
    )


define_contract = Contract(
    qualname=SYMT + "define",
    params={"self": ty.TObj("SymbolTable"), "symbol": ty.TObj("Symbol")},
    requires=[("symbol table exists", lambda a: a.self.symbols is not None)],
    ensures=[("defines exactly this name in this scope", _define_post),
             ("only when the name was free in THIS scope", lambda a, res: Not(z3.Select(a.old.self.symbols.present, a.symbol.name)))],
    raises={"SemanticError": lambda a: z3.Select(a.old.self.symbols.present, a.symbol.name)},
    dynamic_types={"self": _SYM_T, "symbol": {"name": ty.Str, "defined_at": ty.TOpaque("node")}},
    uses={"SemanticError": "opaque"},
    properties=("C14", "C15", "C16"),
    min_obligations=3,
)

CONTRACTS = [error_contract, has_errors_contract, define_contract]

# --- SymbolTable.lookup: innermost binding; the recursive call is used by contract -----------------
from pyvc.ghost import ghost  # noqa: E402


def _lk(o):
    """ghost: what lookup(name) yields on scope o (for the one name of this call)"""
    return ghost(o, "lookup_result", ty.TOpt(ty.Int))


lookup_rec = Contract(
    qualname=SYMT + "lookup",
    params={"self": ty.TObj("SymbolTable"), "name": ty.Str},
    effect=lambda ex, a: _lk(a.self),
    verify=False,
    note="recursive call on the parent scope, used by contract (induction over the finite scope chain)",
)


def _lookup_post(a, res):
    syms = a.self.symbols
    here = z3.Select(syms.present, a.name)
    parent = a.self.parent
    if parent is None:
        outer = None
    else:
        outer = _lk(parent)
    inner_ok = Implies(here, False if res is None else res == z3.Select(syms.vals, a.name))
    if outer is None:
        outer_ok = Implies(Not(here), res is None)
    else:
        outer_ok = Implies(Not(here), (res is not None) and res == outer if not isinstance(outer, type(None)) else res is None)
    return And(inner_ok, outer_ok)


lookup_contract = Contract(
    qualname=SYMT + "lookup",
    params={"self": ty.TObj("SymbolTable"), "name": ty.Str},
    ensures=[("innermost binding wins, else the enclosing scope's answer, else None", _lookup_post)],
    uses={"SymbolTable.lookup": lookup_rec},
    dynamic_types={"self": _SYM_T},
    properties=("C14", "C15", "C16"),
    min_obligations=3,
)

CONTRACTS += [lookup_contract, lookup_rec]
