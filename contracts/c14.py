"""C14 contracts: ill-formed programs are rejected (exceptional postconditions)."""
from __future__ import annotations

import z3

from pyvc import types as ty
from pyvc.contract import Contract
from spec.ops import And, Implies, Not, Or

DIAG = "dsl_compiler/src/common/diagnostics.py::ProgramDiagnostics."
SYMT = "dsl_compiler/src/semantic/symbol_table.py::SymbolTable."

_DIAG_T = {"raise_errors": ty.Bool, "_error_count": ty.Int, "_warning_count": ty.Int, "default_stage": ty.Str,
           "diagnostics": ty.TOpaque("list")}

error_contract = Contract(
    qualname=DIAG + "error",
    params={"self": ty.TObj("ProgramDiagnostics"), "message": ty.Str, "stage": ty.TOpt(ty.Str), "line": ty.Int,
            "column": ty.Int, "source_file": ty.TOpt(ty.Str), "node": ty.TOpaque("node")},
    requires=[("error counter is a natural number", lambda a: a.self._error_count >= 0),
              ("flag exists", lambda a: Or(a.self.raise_errors, Not(a.self.raise_errors)))],
    ensures=[("returns only when errors do not raise", lambda a, res: Not(a.old.self.raise_errors)),
             ("error is counted", lambda a, res: a.self._error_count == a.old.self._error_count + 1),
             ("has_errors() holds afterwards", lambda a, res: a.self._error_count > 0)],
    raises={"RuntimeError": lambda a: a.old.self.raise_errors},
    uses={"ProgramDiagnostics._add": "skip"},
    dynamic_types={"self": _DIAG_T},
    properties=("C14",),
    min_obligations=4,
    note="ProgramDiagnostics._add only appends a record (frame {diagnostics}); logging calls are dropped by the extraction",
)

has_errors_contract = Contract(
    qualname=DIAG + "has_errors",
    params={"self": ty.TObj("ProgramDiagnostics")},
    ensures=[("true iff an error was counted", lambda a, res: res == (a.self._error_count > 0))],
    dynamic_types={"self": _DIAG_T},
    properties=("C14",),
)

_SYM_T = {"symbols": ty.TDict(ty.Str, ty.Int), "parent": ty.TOpt(ty.TObj("SymbolTable")), "children": ty.TOpaque("list")}


def _define_post(a, res):
    old = a.old.self.symbols
    new = a.self.symbols
    k = z3.String("anykey")
    name = a.symbol.name
    return And(
        z3.Select(new.present, name),
        z3.ForAll([k], Implies(k != name, And(z3.Select(new.present, k) == z3.Select(old.present, k),
                                               z3.Select(new.vals, k) == z3.Select(old.vals, k)))),
    )


define_contract = Contract(
    qualname=SYMT + "define",
    params={"self": ty.TObj("SymbolTable"), "symbol": ty.TObj("Symbol")},
    requires=[("symbol table exists", lambda a: a.self.symbols is not None)],
    ensures=[("defines exactly this name in this scope", _define_post),
             ("only when the name was free in THIS scope", lambda a, res: Not(z3.Select(a.old.self.symbols.present, a.symbol.name)))],
    raises={"SemanticError": lambda a: z3.Select(a.old.self.symbols.present, a.symbol.name)},
    dynamic_types={"self": _SYM_T, "symbol": {"name": ty.Str, "defined_at": ty.TOpaque("node")}},
    uses={"SemanticError": "opaque"},
    properties=("C14", "C15", "C16"),
    min_obligations=3,
)

CONTRACTS = [error_contract, has_errors_contract, define_contract]

# --- SymbolTable.lookup: innermost binding; the recursive call is used by contract -----------------
from pyvc.ghost import ghost  # noqa: E402


def _lk(o):
    """ghost: what lookup(name) yields on scope o (for the one name of this call)"""
    return ghost(o, "lookup_result", ty.TOpt(ty.Int))


lookup_rec = Contract(
    qualname=SYMT + "lookup",
    params={"self": ty.TObj("SymbolTable"), "name": ty.Str},
    effect=lambda ex, a: _lk(a.self),
    verify=False,
    note="recursive call on the parent scope, used by contract (induction over the finite scope chain)",
)


def _lookup_post(a, res):
    syms = a.self.symbols
    here = z3.Select(syms.present, a.name)
    parent = a.self.parent
    if parent is None:
        outer = None
    else:
        outer = _lk(parent)
    inner_ok = Implies(here, False if res is None else res == z3.Select(syms.vals, a.name))
    if outer is None:
        outer_ok = Implies(Not(here), res is None)
    else:
        outer_ok = Implies(Not(here), (res is not None) and res == outer if not isinstance(outer, type(None)) else res is None)
    return And(inner_ok, outer_ok)


lookup_contract = Contract(
    qualname=SYMT + "lookup",
    params={"self": ty.TObj("SymbolTable"), "name": ty.Str},
    ensures=[("innermost binding wins, else the enclosing scope's answer, else None", _lookup_post)],
    uses={"SymbolTable.lookup": lookup_rec},
    dynamic_types={"self": _SYM_T},
    properties=("C14", "C15", "C16"),
    min_obligations=3,
)

CONTRACTS += [lookup_contract, lookup_rec]


# =================================================================================================
# SemanticAnalyzer._infer_bundle_literal_type: a bundle literal whose flattened members (signals and the members of
# nested bundles, in any order) contain one signal type twice is reported as an error; without duplicates nothing is
# reported and the result is the union.  Element types range over signals / nested bundles on a 3-name alphabet
# (names matter only up to equality): literals of 3 elements, all 5^3 type assignments — bounded.
# =================================================================================================
import itertools as _it  # noqa: E402

from pyvc.values import SObj as _SObj, fresh_name as _fresh  # noqa: E402

AN = "dsl_compiler/src/semantic/analyzer.py::SemanticAnalyzer."
ERRS = []
_ELEM_TYPES = [("sig", "a"), ("sig", "b"), ("bun", ("a",)), ("bun", ("a", "b")), ("bun", ("c",))]


def _mk_type(ex, kind, val):
    if kind == "sig":
        t = _SObj(["SignalValue"], _fresh("sigtype"), lazy=False)
        info = _SObj(["SignalTypeInfo"], _fresh("info"), lazy=False)
        info._fields["name"] = val
        t._fields["signal_type"] = info
        return t
    t = _SObj(["BundleValue"], _fresh("buntype"), lazy=False)
    t._fields["signal_types"] = set(val)
    return t


def _bundle_contract(assign):
    table = {}

    def get_type(ex, a):
        idx = [i for i, e in enumerate(ex.args_ns.expr.elements) if e is a.expr][0]
        return _mk_type(ex, *assign[idx])

    def err(ex, a):
        ERRS.append(a.message)
        return None

    flat = []
    for kind, val in assign:
        flat += [val] if kind == "sig" else list(val)
    dup = len(flat) != len(set(flat))

    def post(a, res):
        reported = len(ERRS) > 0
        return reported == dup and (dup or set(res.signal_types) == set(flat))

    return Contract(
        qualname=AN + "_infer_bundle_literal_type",
        params={"self": ty.TObj("SemanticAnalyzer", only=("SemanticAnalyzer",)),
                "expr": ty.TObj("BundleLiteral", only=("BundleLiteral",), ftypes=(("elements", ty.TTuple(tuple(ty.TObj("Expr", only=("IdentifierExpr",)) for _ in assign))),))},
        requires=[("(reset)", lambda a: ERRS.clear() or True)],
        ensures=[("an error is reported iff a signal type occurs twice among the flattened members; otherwise the union is returned", post)],
        uses={"SemanticAnalyzer.get_expr_type": Contract(qualname=AN + "get_expr_type", params={"self": ty.TOpaque("s"), "expr": ty.TOpaque("e")}, effect=get_type, verify=False, note="element types as enumerated"),
              "ProgramDiagnostics.error": Contract(qualname=DIAG + "error", params={"self": ty.TOpaque("d"), "message": ty.TOpaque("m"), "stage": ty.TOpaque("s"), "node": ty.TOpaque("n")},
                                                   defaults={"stage": None, "node": None}, effect=err, verify=False, note="records the report (its own contract is proved above)")},
        dynamic_types={"self": {"diagnostics": ty.TObj("ProgramDiagnostics", only=("ProgramDiagnostics",))}},
        properties=("C14",), min_obligations=1, no_replay=True, note="elements: " + "; ".join(f"{k}{v}" for k, v in assign))


for _assign in _it.product(_ELEM_TYPES, repeat=3):
    CONTRACTS.append(_bundle_contract(_assign))


# =================================================================================================
# SemanticAnalyzer.visit_ForStmt: a zero step — written as a literal or reached through an int variable — is reported and
# nothing of the loop is analysed; otherwise the body is analysed once PER ITERATION VALUE, each time in a fresh child
# scope in which the iterator is defined, and the analyser's scope is the enclosing one again afterwards.
# (Two iteration values, body of one statement: bounded list lengths.)
# =================================================================================================
VISITS, FOR_ERRS, DEFS = [], [], []


def _visit_eff(ex, a):
    VISITS.append((a.node, ex.args_ns.self.current_scope))
    return None


def _child_eff(ex, a):
    return _SObj(["SymbolTable"], _fresh("child_scope"), lazy=True)


def _define_eff(ex, a):
    DEFS.append((a.self if hasattr(a, "self") else None, a.symbol))
    return None


def _for_err(ex, a):
    FOR_ERRS.append(a.message)
    return None


def _giv_eff(ex, a):
    return [z3.Int("it0"), z3.Int("it1")]


def _resolve_eff(ex, a):
    return z3.Int("resolved_step")


def _for_contract(step_kind):
    step_t = {"literal": ty.Int, "variable": ty.TConcrete("s"), "default": ty.TConcrete(1)}[step_kind]

    def post(a, res):
        step = a.node.step if step_kind != "variable" else z3.Int("resolved_step")
        zero = (step == 0)
        outer = a.old.self.current_scope
        back = a.self.current_scope is (outer._obj if hasattr(outer, "_obj") else outer)
        body_stmt = a.node.body[0]
        full = (len(VISITS) == 2 and all(n is body_stmt for n, _sc in VISITS) and VISITS[0][1] is not VISITS[1][1]
                and all(sc is not a.self.current_scope for _n, sc in VISITS) and len(DEFS) == 2
                and all(d[1].name == a.node.iterator_name for d in DEFS) and not FOR_ERRS and back)
        none = (len(VISITS) == 0 and len(FOR_ERRS) == 1 and back)
        if full:
            # every iteration scope is recorded with the number of iterations of its loop (what the one-write-per-cell rule reads)
            counts = a.self._loop_iteration_counts
            recorded = [z3.And(z3.Select(counts.present, sc._fields["#handle"]), z3.Select(counts.vals, sc._fields["#handle"]) == 2) if "#handle" in sc._fields else z3.BoolVal(False)
                        for _n, sc in VISITS]
            if isinstance(zero, bool):
                return z3.And(*recorded) if not zero else none
            return z3.If(zero, z3.BoolVal(bool(none)), z3.And(*recorded))
        none = (len(VISITS) == 0 and len(FOR_ERRS) == 1 and back)
        if isinstance(zero, bool):
            return none if zero else full
        # symbolic step: the path decides
        return z3.If(zero, z3.BoolVal(bool(none)), z3.BoolVal(bool(full)))

    return Contract(
        qualname=AN + "visit_ForStmt",
        params={"self": ty.TObj("SemanticAnalyzer", only=("SemanticAnalyzer",)),
                "node": ty.TObj("ForStmt", only=("ForStmt",), ftypes=(("step", step_t), ("iterator_name", ty.TConcrete("i")),
                                                                    ("body", ty.TTuple((ty.TObj("Statement", only=("ExprStmt",)),)))))},
        requires=[("(reset)", lambda a: (VISITS.clear(), FOR_ERRS.clear(), DEFS.clear()) and True),
                  ("the analyser has a current scope", lambda a: a.self.current_scope is not None)],
        ensures=[("zero step: one error, nothing analysed; otherwise the body is analysed per iteration value in its own child scope with the iterator defined; scope restored", post)],
        uses={"SemanticAnalyzer.visit": Contract(qualname=AN + "visit", params={"self": ty.TOpaque("s"), "node": ty.TOpaque("n")}, effect=_visit_eff, verify=False, note="records (statement, scope)"),
              "SymbolTable.create_child_scope": Contract(qualname="dsl_compiler/src/semantic/symbol_table.py::SymbolTable.create_child_scope", params={"self": ty.TOpaque("s")}, effect=_child_eff, verify=False, note="fresh child scope"),
              "SymbolTable.define": Contract(qualname="dsl_compiler/src/semantic/symbol_table.py::SymbolTable.define", params={"self": ty.TOpaque("s"), "symbol": ty.TOpaque("y")}, effect=_define_eff, verify=False, note="proved above; records the definition"),
              "ProgramDiagnostics.error": Contract(qualname=DIAG + "error", params={"self": ty.TOpaque("d"), "message": ty.TOpaque("m"), "stage": ty.TOpaque("s"), "node": ty.TOpaque("n")},
                                                   defaults={"stage": None, "node": None}, effect=_for_err, verify=False, note="records the report"),
              "ForStmt.get_iteration_values": Contract(qualname="dsl_compiler/src/ast/statements.py::ForStmt.get_iteration_values", params={"self": ty.TOpaque("s"), "constant_resolver": ty.TOpaque("r")},
                                                       defaults={"constant_resolver": None}, effect=_giv_eff, verify=False, note="two symbolic iteration values (sequence proved in contracts.c16)"),
              "SemanticAnalyzer._resolve_for_loop_constant": Contract(qualname=AN + "_resolve_for_loop_constant", params={"self": ty.TOpaque("s"), "name": ty.TOpaque("n")}, effect=_resolve_eff, verify=False,
                                                                     note="value of the int variable (any integer)")},
        dynamic_types={"self": {"diagnostics": ty.TObj("ProgramDiagnostics", only=("ProgramDiagnostics",)), "current_scope": ty.TObj("SymbolTable", only=("SymbolTable",)),
                                "_loop_iteration_counts": ty.TDict(ty.Int, ty.Int)}},
        properties=("C14", "C16"), min_obligations=1, no_replay=True, note=f"step given as {step_kind}")


for _sk in ("literal", "variable", "default"):
    CONTRACTS.append(_for_contract(_sk))


# =================================================================================================
# SemanticAnalyzer._value_matches_type: a declaration `T name = value` is well-typed exactly when the value's kind is the
# one T names: int <- IntValue, Signal / SignalType / Memory <- SignalValue, Entity <- EntityValue, Bundle <- BundleValue
# (dynamic bundles included); a void value matches nothing.
# =================================================================================================
_KINDS_ALL = ("IntValue", "SignalValue", "EntityValue", "VoidValue", "BundleValue", "DynamicBundleValue", "FunctionValue")
_ACCEPT = {"int": {"IntValue"}, "Signal": {"SignalValue"}, "SignalType": {"SignalValue"}, "Entity": {"EntityValue"}, "Memory": {"SignalValue"},
           "Bundle": {"BundleValue", "DynamicBundleValue"}}


def _vmt_post(tname):
    def post(a, res):
        cls = a.value_type._cls_set
        if len(cls) != 1:
            return False
        return res == (cls[0] in _ACCEPT[tname])
    return post


for _tn in _ACCEPT:
    for _k in _KINDS_ALL:
        CONTRACTS.append(Contract(
            qualname=AN + "_value_matches_type",
            params={"self": ty.TObj("SemanticAnalyzer", only=("SemanticAnalyzer",)), "value_type": ty.TObj("ValueInfo", only=(_k,)), "expected_type_name": ty.TConcrete(_tn)},
            ensures=[(f"{_tn} accepts exactly {sorted(_ACCEPT[_tn])}", _vmt_post(_tn))],
            properties=("C14",), min_obligations=1, no_replay=True, note=f"declared {_tn}, value {_k}"))


# =================================================================================================
# SemanticAnalyzer.visit_FuncDecl: EVERY statement of a function body is analysed — also those after a `return` — in a
# child scope in which the parameters are defined; the function itself is defined in the enclosing scope, which is the
# analyser's scope again afterwards.  (Body of three statements with the return in the middle: bounded list length.)
# =================================================================================================
FV, FDEFS = [], []


def _fvisit(ex, a):
    FV.append((a.node, ex.args_ns.self.current_scope))
    return None


def _fdefine(ex, a):
    FDEFS.append((a.self, a.symbol))
    return None


def _func_post(a, res):
    body = a.node.body
    outer = a.old.self.current_scope
    outer_obj = outer._obj if hasattr(outer, "_obj") else outer
    if len(FV) != len(body) or any(v[0] is not s for v, s in zip(FV, body)):
        return False
    scopes = {id(v[1]) for v in FV}
    if len(scopes) != 1 or FV[0][1] is outer_obj:
        return False
    inner = FV[0][1]
    in_outer = [d for d in FDEFS if d[0] is outer_obj]
    in_inner = [d for d in FDEFS if d[0] is inner]
    return (len(in_outer) == 1 and in_outer[0][1].name == a.node.name and [d[1].name for d in in_inner] == ["p", "q"]
            and a.self.current_scope is outer_obj)


_PARAM_T = lambda n, t: ty.TObj("TypedParam", only=("TypedParam",), ftypes=(("name", ty.TConcrete(n)), ("type_name", ty.TConcrete(t))))  # noqa: E731
CONTRACTS.append(Contract(
    qualname=AN + "visit_FuncDecl",
    params={"self": ty.TObj("SemanticAnalyzer", only=("SemanticAnalyzer",)),
            "node": ty.TObj("FuncDecl", only=("FuncDecl",), ftypes=(
                ("name", ty.TConcrete("f")), ("params", ty.TTuple((_PARAM_T("p", "Signal"), _PARAM_T("q", "int")))),
                ("body", ty.TTuple((ty.TObj("Statement", only=("ExprStmt",)), ty.TObj("ReturnStmt", only=("ReturnStmt",), ftypes=(("expr", ty.TObj("Expr", only=("IdentifierExpr",))),)),
                                    ty.TObj("Statement", only=("DeclStmt",)))))))},
    requires=[("(reset)", lambda a: (FV.clear(), FDEFS.clear()) and True), ("the analyser has a current scope", lambda a: a.self.current_scope is not None)],
    ensures=[("every body statement (also after the return) is analysed in the function's child scope with the parameters defined; scope restored", _func_post)],
    uses={"SemanticAnalyzer.visit": Contract(qualname=AN + "visit", params={"self": ty.TOpaque("s"), "node": ty.TOpaque("n")}, effect=_fvisit, verify=False, note="records (statement, scope)"),
          "SymbolTable.create_child_scope": Contract(qualname="dsl_compiler/src/semantic/symbol_table.py::SymbolTable.create_child_scope", params={"self": ty.TOpaque("s")}, effect=_child_eff, verify=False, note="fresh child scope"),
          "SymbolTable.define": Contract(qualname="dsl_compiler/src/semantic/symbol_table.py::SymbolTable.define", params={"self": ty.TOpaque("s"), "symbol": ty.TOpaque("y")}, effect=_fdefine, verify=False, note="proved above; records (scope, symbol)"),
          "SemanticAnalyzer._type_name_to_value_info": "skip", "SemanticAnalyzer._param_type_name_to_symbol_type": "skip",
          "SemanticAnalyzer._infer_function_return_type": "skip", "ProgramDiagnostics.error": "skip"},
    dynamic_types={"self": {"diagnostics": ty.TObj("ProgramDiagnostics", only=("ProgramDiagnostics",)), "current_scope": ty.TObj("SymbolTable", only=("SymbolTable",)),
                            "_analyzing_functions": ty.TConcrete(set())}},
    properties=("C14", "C15"), min_obligations=1, no_replay=True, note="body: statement; return; statement"))
