"""C14 / C03 / C05: SemanticAnalyzer.infer_expr_type — the static rules of `m.write(...)` (leaves, dispatch and helpers: contracts.c14d).

WriteExpr   an error is recorded for each of the following, and for nothing else:
              * set= / reset= given and the set (reset) argument is not a signal (one error each);  when= mixed with set= / reset=
              * the cell is undefined, or the name is not a memory (the result is then a signal of a fresh implicit type)
              * ONE WRITE PER CELL: the declaration this name resolves to has been written before (in whatever scope the earlier
                write stands), or the write stands in the body of a loop with two or more iterations and the cell is declared
                outside that loop (every iteration repeats it); the first write of a cell is recorded under its DECLARATION
              * when= is neither a signal nor an integer
              * the value is neither a signal nor an integer (an integer is written on a fresh implicit type)
              * the cell has no type and the write gives it none
              * the written type differs from the cell's type — unless the written type is compiler-chosen (`__v…`), and only as a
                WARNING when the cell was declared without a type
            otherwise the result is the cell's own type, the value's type and the enable's type are attached to the expression.
Scope chains of depth <= 2 (bounded shape, stated); every scalar symbolic.
"""
from __future__ import annotations

import z3

from pyvc import types as ty
from pyvc.contract import Contract
from pyvc.ghost import ghost, isa
from pyvc.values import FStr, OldView, SObj, fresh_name
from spec import ops
from spec.ops import And, Implies, Not, Or

AN = "dsl_compiler/src/semantic/analyzer.py::SemanticAnalyzer."
_OPQ = ty.TOpaque("x")
ERR, WARN, TYPED = [], [], []
_INFO = ty.TObj("SignalTypeInfo", only=("SignalTypeInfo",), ftypes=(("name", ty.Str),))
_VT = ty.TObj("ValueInfo", only=("IntValue", "SignalValue", "BundleValue"), ftypes=(("signal_type", ty.TOpt(_INFO)),))
_SELF = ty.TObj("SemanticAnalyzer", only=("SemanticAnalyzer",))
IMPLICIT = "__v_fresh"


def _reset(a):
    ERR.clear(), WARN.clear(), TYPED.clear()
    return True


def _get_type(ex, a):
    TYPED.append(a.expr)
    only = getattr(ex.contract, "value_classes", None)
    if only and a.expr is ex.args_ns.expr._fields.get("value"):
        return ghost(a.expr, "type", ty.TObj("ValueInfo", only=only, ftypes=(("signal_type", ty.TOpt(_INFO)),)))
    e = ex.args_ns.expr
    if a.expr is e._fields.get("set_signal") or a.expr is e._fields.get("reset_signal") or a.expr is e._fields.get("when"):
        # arguments: what matters is signal / integer / neither
        if a.expr is e._fields.get("when"):
            return ghost(a.expr, "type", ty.TObj("ValueInfo", only=("IntValue", "SignalValue", "BundleValue")))
        # (in the scenario that mixes when= with set= / reset= the latch arguments are signals: their own rule is covered by the latch scenario)
        return ghost(a.expr, "type", ty.TObj("ValueInfo", only=("SignalValue",) if getattr(ex.contract, "kind", "") == "mixed" else ("SignalValue", "BundleValue")))
    return ghost(a.expr, "type", _VT)


def _implicit(ex, a):
    r = SObj(["SignalTypeInfo"], fresh_name("implicit_info"), lazy=False)
    r._fields.update({"name": IMPLICIT, "is_implicit": True})
    return r


def _mk_info(ex, a):
    r = SObj(["SignalTypeInfo"], fresh_name("info"), lazy=False)
    r._fields.update({"name": a.signal_type, "is_implicit": a.implicit})
    return r


_MEMSYM = ty.TObj("Symbol", only=("Symbol",), ftypes=(("symbol_type", ty.Str), ("value_type", _VT)))


def _lookup(ex, a):
    return ghost(ex.args_ns.expr, "symbol", ty.TOpt(_MEMSYM))


error_c = Contract(qualname="dsl_compiler/src/common/diagnostics.py::ProgramDiagnostics.error", params={"self": _OPQ, "message": _OPQ, "stage": _OPQ, "line": _OPQ, "column": _OPQ,
                                                                                                         "source_file": _OPQ, "node": _OPQ},
                   defaults={"stage": None, "line": 0, "column": 0, "source_file": None, "node": None}, effect=lambda ex, a: ERR.append(a), verify=False,
                   note="proved in contracts.c14: the error is counted (compilation fails)")
warning_c = Contract(qualname="dsl_compiler/src/common/diagnostics.py::ProgramDiagnostics.warning", params={"self": _OPQ, "message": _OPQ, "stage": _OPQ, "line": _OPQ, "column": _OPQ,
                                                                                                             "source_file": _OPQ, "node": _OPQ},
                     defaults={"stage": None, "line": 0, "column": 0, "source_file": None, "node": None}, effect=lambda ex, a: WARN.append(a), verify=False, note="a warning (does not stop compilation)")
get_type = Contract(qualname=AN + "get_expr_type", params={"self": _OPQ, "expr": _OPQ}, effect=_get_type, verify=False, note="type of a sub-expression (records that it was analysed)")
implicit_c = Contract(qualname=AN + "allocate_implicit_type", params={"self": _OPQ}, effect=_implicit, verify=False, note="a fresh compiler-chosen type: its name starts with `__v` (three-line function)")
mk_info_c = Contract(qualname=AN + "make_signal_type_info", params={"self": _OPQ, "signal_type": _OPQ, "implicit": _OPQ}, defaults={"implicit": False}, effect=_mk_info, verify=False,
                     note="signal type record with this name")
lookup_c = Contract(qualname="dsl_compiler/src/semantic/symbol_table.py::SymbolTable.lookup", params={"self": _OPQ, "name": _OPQ}, effect=_lookup, verify=False,
                    note="proved in contracts.c14: innermost definition of the name, None when undefined")
help_c = Contract(qualname=AN + "_get_memory_write_help", params={"self": _OPQ}, effect=lambda ex, a: " (help)", verify=False, note="a fixed help text")

_SCOPE3 = ty.TObj("SymbolTable", only=("SymbolTable",), ftypes=(("symbols", ty.TDict(ty.Str, ty.Int)), ("parent", ty.TNone())))
_SCOPE2 = ty.TObj("SymbolTable", only=("SymbolTable",), ftypes=(("symbols", ty.TDict(ty.Str, ty.Int)), ("parent", ty.TOpt(_SCOPE3))))
_SCOPE2 = _SCOPE3   # depth 2: the scope of the write and one enclosing scope (a deeper chain multiplies the paths, the loop is the same)
_SCOPE1 = ty.TObj("SymbolTable", only=("SymbolTable",), ftypes=(("symbols", ty.TDict(ty.Str, ty.Int)), ("parent", ty.TOpt(_SCOPE2))))
_MEMINFO = ty.TObj("MemoryInfo", only=("MemoryInfo",), ftypes=(("signal_type", ty.TOpt(ty.Str)), ("explicit", ty.Bool), ("signal_info", _OPQ),
                                                               ("symbol", ty.TObj("Symbol", only=("Symbol",), ftypes=(("defined_at", ty.TObj("ASTNode", only=("MemDecl", "FuncDecl"),
                                                                                                                                     ftypes=(("signal_type", ty.TOpt(ty.Str)),))),)))))
_DBG = ty.TObj("SignalDebugInfo", only=("SignalDebugInfo",))
_DYN = {"self": {"diagnostics": ty.TObj("ProgramDiagnostics", only=("ProgramDiagnostics",)), "current_scope": _SCOPE1,
                 "_loop_iteration_counts": ty.TDict(ty.Int, ty.Int), "_memory_write_locations": ty.TObjMap(ty.Str, ty.TObj("ASTNode", only=("WriteExpr",), ftypes=(("line", ty.Int),))),
                 "memory_types": ty.TObjMap(ty.Str, _MEMINFO), "signal_debug_info": ty.TObjMap(ty.Str, _DBG)}}
_USES = {"ProgramDiagnostics.error": error_c, "ProgramDiagnostics.warning": warning_c, "SemanticAnalyzer.get_expr_type": get_type, "SemanticAnalyzer.allocate_implicit_type": implicit_c,
         "SemanticAnalyzer.make_signal_type_info": mk_info_c, "SymbolTable.lookup": lookup_c, "SemanticAnalyzer._get_memory_write_help": help_c, "WriteExpr.is_latch_write": "inline",
         "SemanticAnalyzer._resolve_physical_signal_name": "skip", "SemanticAnalyzer._lookup_signal_category": "skip"}


def _is(t, cls):
    r = isa(t, cls)
    return z3.BoolVal(r) if isinstance(r, bool) else r


def _b(x):
    return z3.BoolVal(x) if isinstance(x, bool) else x


def _repeated(a):
    """the write stands in a loop of >= 2 iterations that the cell is declared outside of: some scope on the way from the
    current one to the declaring one (exclusive) belongs to such a loop"""
    name = a.expr.memory_name
    counts = a.old.self._loop_iteration_counts
    scope = a.old.self.current_scope
    scope = scope._obj if hasattr(scope, "_obj") else scope
    before = z3.BoolVal(True)   # no scope so far declares the name
    rep = z3.BoolVal(False)
    while scope is not None:
        here = z3.Select(scope.symbols.present, name)
        h = scope._fields.get("#handle")
        if h is None:
            cnt = z3.IntVal(1)   # its identity was never asked for: the walk stopped earlier
        else:
            cnt = z3.If(z3.Select(counts.present, h), z3.Select(counts.vals, h), 1)
        rep = Or(rep, And(before, Not(here), cnt > 1))
        before = And(before, Not(here))
        scope = scope._fields.get("parent")
    return rep


def _key_is(key, sym, name):
    return isinstance(key, FStr) and len(key.comps) == 2 and key.comps[0] is sym._fields.get("#handle") and key.comps[1] is name


def _write_post(kind):
    def post(a, res):
        e = a.expr
        vt = e.value._fields.get("@type")
        if vt is None or not TYPED or TYPED[0] is not e.value:
            return False
        n = z3.IntVal(0)
        if kind in ("latch", "mixed"):
            st, rt = e.set_signal._fields.get("@type"), e.reset_signal._fields.get("@type")
            if st is None or rt is None:
                return False
            n = n + ops.ite(_is(st, "SignalValue"), 0, 1) + ops.ite(_is(rt, "SignalValue"), 0, 1)
        if kind == "mixed":
            n = n + 1
        et = e.when._fields.get("@type") if kind in ("when", "mixed") else None
        if kind in ("when", "mixed") and et is None:
            return False
        # the types found are attached to the expression
        attached = (e._fields.get("enable_type") is et) if et is not None else isa(e._fields.get("enable_type"), "SignalValue") is True
        sym = e._fields.get("@symbol")
        fresh_result = isa(res, "SignalValue") is True and isinstance(res.signal_type, SObj) and res.signal_type.name == IMPLICIT
        locs = a.self._memory_write_locations
        stores = locs.__dict__.get("stores", [])
        if sym is None:
            return And(len(ERR) == n + 1, attached and fresh_result and not stores and not WARN)
        is_mem = sym.symbol_type == "memory"
        if fresh_result and res is not sym.value_type:
            return And(Not(is_mem), len(ERR) == n + 1, attached and not stores and not WARN)
        # ---- from here on the name is a memory and the result is the cell's own type
        cs = [is_mem, _b(res is sym.value_type), _b(attached)]
        # one write per cell
        repeated = _repeated(a)
        asked = [(k, b) for k, b in locs.all_tests]
        if len(asked) > 1 or any(not _key_is(k, sym, e.memory_name) for k, _b2 in asked):
            return False   # the table is only ever asked about THIS cell's declaration
        seen = asked[0][1] if asked else None
        if stores:
            # recorded as the cell's first write: under its declaration, this node; neither repeated by a loop nor seen before
            ok = len(stores) == 1 and stores[0][1] is e and _key_is(stores[0][0], sym, e.memory_name) and seen is not None
            cs += [_b(ok), Not(repeated), Not(seen) if seen is not None else z3.BoolVal(False)]
        else:
            cs.append(Or(repeated, seen) if seen is not None else repeated)
            n = n + 1
        if et is not None:
            n = n + ops.ite(Or(_is(et, "SignalValue"), _is(et, "IntValue")), 0, 1)
        # the value: an integer is written on a fresh compiler-chosen type; anything but a signal / an integer is refused
        written = e._fields.get("value_type")
        if isa(vt, "IntValue") is True:
            cs.append(_b(isa(written, "SignalValue") is True and isinstance(written.signal_type, SObj) and written.signal_type.name == IMPLICIT and written.count_expr is e.value))
            wname = IMPLICIT
        else:
            cs.append(_b(written is vt))
            if isa(vt, "SignalValue") is not True:
                return And(*cs, len(ERR) == n + 1, not WARN)
            wname = vt.signal_type.name if vt.signal_type is not None else None
        # the type the cell expects
        if len(a.self.memory_types.lookups) != 1 or a.self.memory_types.lookups[0][0] is not e.memory_name:
            return False
        mi = a.self.memory_types.lookups[0][1]
        expected = None
        if mi is not None:
            t0 = OldView(mi, {}).signal_type
            missing = z3.BoolVal(True) if t0 is None else z3.Length(t0) == 0   # no declared type (an empty name counts as none)
            replaced = mi._fields.get("signal_type") is not t0
            if replaced:
                # only an untyped cell takes a type, and then the type of its (only) write
                cs += [missing, _b(wname is not None and mi._fields.get("signal_type") is wname)]
                expected = wname
            elif wname is not None:
                cs.append(Not(missing))   # ... and it does take it
                expected = t0
            else:
                expected = None   # nothing written on a name: refused below whatever the cell says
        elif isa(sym.value_type, "SignalValue") is True and sym.value_type.signal_type is not None:
            expected = sym.value_type.signal_type.name
        return And(*_tail(cs, n, expected, wname, mi))
    return post


def _tail(cs, n, expected, wname, mi):
    if expected is None or wname is None:
        return [*cs, len(ERR) == n + 1, _b(not WARN)]
    differs = Not(ops.eq(wname, expected)) if (ops.is_sym(wname) or ops.is_sym(expected)) else z3.BoolVal(wname != expected)
    compiler_chosen = z3.PrefixOf(z3.StringVal("__v"), wname) if ops.is_sym(wname) else z3.BoolVal(wname.startswith("__v"))
    strict = z3.BoolVal(True) if mi is None else mi.explicit
    is_err = And(differs, Not(compiler_chosen), strict)
    is_warn = And(differs, Not(compiler_chosen), Not(strict))
    return [*cs, len(ERR) == n + ops.ite(is_err, 1, 0), len(WARN) == ops.ite(is_warn, 1, 0)]


_EXPR = ty.TObj("Expr", only=("IdentifierExpr",))
CONTRACTS = []
for _kind, _vcls in [(k, v) for k in ("plain", "when", "latch", "mixed") for v in ("IntValue", "SignalValue", "BundleValue")]:
    _ft = [("memory_name", ty.Str), ("value", _EXPR),
           ("when", _EXPR if _kind in ("when", "mixed") else ty.TNone()),
           ("set_signal", _EXPR if _kind in ("latch", "mixed") else ty.TNone()),
           ("reset_signal", _EXPR if _kind in ("latch", "mixed") else ty.TNone())]
    CONTRACTS.append(Contract(
        qualname=AN + "infer_expr_type", params={"self": _SELF, "expr": ty.TObj("WriteExpr", only=("WriteExpr",), ftypes=tuple(_ft))},
        requires=[("(reset capture)", _reset), ("the analyser has a current scope", lambda a: a.self.current_scope is not None)],
        ensures=[("one error per violated write rule (latch arguments, mixing, undefined / not a memory, one write per cell through any scope or loop, when= kind, value kind, "
                  "untyped cell, contradicting type) and none otherwise; the first write is recorded under the cell's declaration; result: the cell's type", _write_post(_kind))],
        uses=_USES, dynamic_types=_DYN, properties=("C14", "C03", "C05"), min_obligations=8, no_replay=True,
        note={"plain": "m.write(v)", "when": "m.write(v, when=c)", "latch": "m.write(v, set=s, reset=r)", "mixed": "m.write(v, when=c, set=s, reset=r)"}[_kind] + f", v: {_vcls}"))
    CONTRACTS[-1].value_classes = (_vcls,)
    CONTRACTS[-1].kind = _kind
CONTRACTS += [error_c, warning_c, get_type, implicit_c, mk_info_c, lookup_c, help_c]
