"""C20 contracts: EntityPlacer.create_output_anchors creates exactly the anchors the alias bookkeeping asks for.

For one usage entry: nothing unless it is an output with a producer; for a constant producer one anchor per
alias other than the name the constant combinator already carries (its declared name); otherwise one anchor per
alias, or one for the entry's own label when it has no aliases.  Every anchor is an empty constant combinator
labelled with the alias and is made a sink of the signal.
Names matter only up to equality, so the alias sets range over subsets of a three-name alphabet (finite
abstraction of the name domain — stated bound); every other field is symbolic."""
from __future__ import annotations

import itertools

import z3

from pyvc import types as ty
from pyvc.contract import Contract
from pyvc.values import SObj
from spec import ops
from spec.ops import And, Implies, Not, Or

EP = "dsl_compiler/src/layout/entity_placer.py::EntityPlacer."
_OPQ = ty.TOpaque("x")
MADE, SINKS = [], []


def _create_effect(ex, a):
    MADE.append({k: getattr(a, k) for k in ("ir_node_id", "entity_type", "role", "debug_info", "signals", "is_output")})
    return SObj(["EntityPlacement"], "anchor", lazy=True)


create = Contract(qualname="dsl_compiler/src/layout/layout_plan.py::LayoutPlan.create_and_add_placement",
                  params={"self": _OPQ, "ir_node_id": _OPQ, "entity_type": _OPQ, "position": _OPQ, "footprint": _OPQ, "role": _OPQ, "debug_info": _OPQ,
                          "signals": _OPQ, "is_output": _OPQ}, effect=_create_effect, verify=False, note="records the placement")


def _sink_effect(ex, a):
    SINKS.append((a.args[0], a.args[1]))
    return None


add_sink = Contract(qualname="dsl_compiler/src/layout/signal_graph.py::SignalGraph.add_sink", params={"kwargs": _OPQ}, effect=_sink_effect, verify=False,
                    note="records the sink edge")


def _expected(is_const, aliases, declared, label):
    if is_const:
        if not aliases:
            return set()
        return set(aliases) - ({declared} if declared else set())
    if aliases:
        return set(aliases)
    return {label} if label else set()


def _post_for(is_const, aliases, declared, label):
    def post(a, res):
        entry = a.self.signal_usage["sig1"]
        active = And(entry.debug_metadata["is_output"], True)
        want = _expected(is_const, aliases, declared, label)
        got = [m["debug_info"]["variable"] for m in MADE]
        ok_when_active = (sorted(got) == sorted(want)
                          and all(m["role"] == "output_anchor" and m["entity_type"] == "constant-combinator" and m["signals"] == [] and m["is_output"] is True for m in MADE)
                          and sorted(SINKS) == sorted(("sig1", m["ir_node_id"]) for m in MADE)
                          and len({m["ir_node_id"] for m in MADE}) == len(MADE))
        none_made = not MADE and not SINKS
        return And(Implies(active, ok_when_active), Implies(Not(active), none_made))
    return post


CONTRACTS = []
NAMES = ("a", "b", "c")
for _const in (True, False):
    for _aliases in (frozenset(), frozenset({"a"}), frozenset({"a", "b"})):
        for _declared in (None, "a", "c"):
            for _label in (None, "a"):
                _entry = ty.TObj("SignalUsageEntry", only=("SignalUsageEntry",), ftypes=(
                    ("debug_metadata", ty.TRecord((("is_output", ty.Bool), ("declared_name", ty.TConcrete(_declared)), ("name", ty.TConcrete("b"))))),
                    ("producer", ty.TObj("IRNode", only=(("IRConst",) if _const else ("IRArith",)))),
                    ("output_aliases", ty.TConcrete(set(_aliases))), ("debug_label", ty.TConcrete(_label)),
                    ("resolved_signal_name", ty.Str), ("signal_type", ty.Str)))
                CONTRACTS.append(Contract(
                    qualname=EP + "create_output_anchors",
                    params={"self": ty.TObj("EntityPlacer", only=("EntityPlacer",))},
                    requires=[("(reset capture)", lambda a: (MADE.clear(), SINKS.clear()) and True)],
                    ensures=[("exactly the expected anchors, each labelled with its alias and wired to the signal", _post_for(_const, _aliases, _declared, _label))],
                    uses={"LayoutPlan.create_and_add_placement": create, "opaque.add_sink": add_sink, "SignalGraph.add_sink": add_sink, "opaque.info": "skip"},
                    dynamic_types={"self": {"signal_usage": ty.TRecord((("sig1", _entry),)), "plan": ty.TObj("LayoutPlan", only=("LayoutPlan",)),
                                            "signal_graph": ty.TOpaque("graph"), "diagnostics": ty.TOpaque("diag")}},
                    properties=("C20",), min_obligations=1, no_replay=True,
                    note=f"producer {'const' if _const else 'op'}; aliases {sorted(_aliases)}; declared {_declared}; label {_label}"))
CONTRACTS += [create, add_sink]


# =================================================================================================
# entity_emitter.format_entity_description (C20: "the combinator producing it carries the variable's name and source line"):
# the description of an entity with debug information contains the variable's NAME as a separate word — for every named (non
# intermediate) producer — the source LINE (as `[file:line]` or `[line N]`) whenever one is recorded, `(output anchor)` for anchors and
# `-> <signal>` when the signal is known; an intermediate node of a named computation says which name it computes.
# String formatting is outside the P subset; evaluated on the REAL function over an enumerated box: bounded.
# =================================================================================================
FDQ = "dsl_compiler/src/emission/entity_emitter.py::format_entity_description"


def _desc_post(a, res):
    d = a.debug_info
    if not d:
        return res == ""
    words = res.split(" ")
    var, ctx, line, fname, sig = d.get("variable", ""), d.get("expr_context"), d.get("line"), d.get("source_file", ""), d.get("signal_type")
    intermediate = bool(var) and var.startswith(("arith_", "decider_", "const_", "wire_merge_"))
    ok = []
    if intermediate and ctx:
        ok.append(f"computing {ctx}" in res)
    elif var:
        ok.append(var in words)
    if line:
        base = fname.replace("\\", "/").split("/")[-1] if fname else ""
        ok.append((f"[{base}:{line}]" if base else f"[line {line}]") in words or (f"[line {line}]" in res))
    if d.get("operation") == "output":
        ok.append("(output anchor)" in res)
    if sig:
        ok.append(res.endswith(f"-> {sig}"))
    return all(ok)


describe = Contract(qualname=FDQ, params={"debug_info": ty.TOpaque("info")},
                    ensures=[("carries the variable's name (or the name it computes), the source line, the anchor mark and the signal", _desc_post)],
                    verify=False, properties=("C20",), note="evaluated on the real function over an enumerated box (bounded stand-in)")
CONTRACTS.append(describe)


def describe_arg_sets():
    import itertools
    out = [{"debug_info": None}, {"debug_info": {}}]
    for var, ctx, line, fname, op, sig in itertools.product(
            ("total", "x", "arith_12", "decider_3", "", "my_out"), (None, "total"), (None, 1, 42), ("", "prog.facto", "/a/b/prog.facto", "C:\\\\x\\\\p.facto"),
            (None, "arith", "decider", "const", "output", "memory"), (None, "signal-A", "iron-plate")):
        d = {"variable": var, "expr_context": ctx, "line": line, "source_file": fname, "operation": op, "signal_type": sig}
        if op in ("arith", "decider", "const", "memory"):
            d["details"] = {"arith": "op=+", "decider": "cond=>", "const": "value=5", "memory": "cell"}[op]
        out.append({"debug_info": {k: v for k, v in d.items() if v is not None}})
    return out


# =================================================================================================
# EntityPlacer._build_debug_info (C20: "the combinator producing it carries the variable's name and source line"): the description data of a
# placement names the DECLARED name of a user-declared node, else the usage entry's label, else the node's own label, else its id; the line is the
# source node's (the usage entry's first), else the line of the expression context; the signal is the resolved signal of the usage entry, else the
# node's output type; operation and details say what the node is (a declared constant is an "(input)"); absent facts are left out.
# Evaluated on the REAL method over an enumerated box: bounded.
# =================================================================================================
BDQ = EP + "_build_debug_info"


def _bdi_post(a, res):
    sc = a.self._scenario
    return res == sc["expected"]


build_debug_info = Contract(qualname=BDQ, params={"self": ty.TOpaque("placer"), "op": ty.TOpaque("node"), "role_override": ty.TOpaque("role")},
                            ensures=[("name: declared name > usage label > node label > id; line: source node (usage first) > expression context; signal: resolved > output type; "
                                      "operation / details by node kind; absent facts left out", _bdi_post)],
                            verify=False, properties=("C20",), note="evaluated on the real method over an enumerated box (bounded stand-in)")
CONTRACTS.append(build_debug_info)


def build_debug_info_arg_sets():
    from dsl_compiler.src.ir.nodes import IRArith, IRConst, IRDecider, IRMemCreate
    from dsl_compiler.src.layout.entity_placer import EntityPlacer
    from dsl_compiler.src.layout.signal_analyzer import SignalUsageEntry

    class _Ast:
        def __init__(self, line, source_file=None):
            self.line, self.source_file = line, source_file

    out = []
    kinds = {"const": lambda: IRConst("n1", "signal-A"), "arith": lambda: IRArith("n1", "signal-A"), "decider": lambda: IRDecider("n1", "signal-A"),
             "memory": lambda: IRMemCreate("n1", "signal-A")}
    for kind, mk in kinds.items():
        for has_usage, usage_label, usage_line, usage_resolved in itertools.product((False, True), (None, "from_usage"), (None, 7), (None, "signal-R")):
            if not has_usage and (usage_label or usage_line or usage_resolved):
                continue
            for op_label, op_line, declared, ctx, role in itertools.product((None, "from_node"), (None, 0, 12), (None, "", "declared"), (False, True), (None, "output")):
                op = mk()
                if kind == "const":
                    op.value = 42
                if kind == "arith":
                    op.op = "+"
                if kind == "decider":
                    op.test_op = ">"
                if op_label:
                    op.debug_label = op_label
                op.source_ast = _Ast(op_line, "f.facto" if op_line else None) if op_line is not None else None
                if declared is not None:
                    op.debug_metadata["user_declared"] = True
                    if declared:
                        op.debug_metadata["declared_name"] = declared
                if ctx:
                    op.debug_metadata.update({"expr_context_target": "target", "expr_context_line": 33, "expr_context_file": "ctx.facto"})
                ep = object.__new__(EntityPlacer)
                ep.signal_usage = {}
                if has_usage:
                    u = SignalUsageEntry(signal_id="n1")
                    u.debug_label = usage_label
                    u.source_ast = _Ast(usage_line) if usage_line else None
                    u.resolved_signal_name = usage_resolved
                    ep.signal_usage[op.node_id] = u
                # ---- specification
                exp = {}
                exp["variable"] = declared if declared else (usage_label or op_label or op.node_id)
                src_line = usage_line if usage_line else (op_line if (not usage_line and op_line) else None)
                src_file = "f.facto" if (not usage_line and op_line) else None
                if hasattr(op, "source_ast") is False:
                    src_line = usage_line
                line = src_line or (33 if ctx else None)
                sfile = src_file or ("ctx.facto" if ctx else None)
                if ctx:
                    exp["expr_context"] = "target"
                if line:
                    exp["line"] = line
                if sfile:
                    exp["source_file"] = sfile
                if usage_resolved or getattr(op, "output_type", None):
                    exp["signal_type"] = usage_resolved or op.output_type
                if declared is not None:
                    exp["user_declared"] = True
                if kind == "const":
                    exp["operation"], exp["details"] = "const", "value=42" + (" (input)" if declared is not None else "")
                elif kind == "arith":
                    exp["operation"], exp["details"] = "arith", "op=+"
                elif kind == "decider":
                    exp["operation"], exp["details"] = "decider", "cond=>"
                else:
                    exp["operation"], exp["details"] = "memory", "decl"
                if role:
                    exp["role"] = role
                ep._scenario = {"expected": exp}
                out.append({"self": ep, "op": op, "role_override": role})
    return out
