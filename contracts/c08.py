"""C08 / C12 contracts: relay isolation invariant and tile reservation."""
from __future__ import annotations

import z3

from pyvc import types as ty
from pyvc.contract import Contract
from pyvc.engine import pair_sort
from spec.ops import And, Implies, Not, Or

RN = "dsl_compiler/src/layout/connection_planner.py::RelayNode."
TG = "dsl_compiler/src/layout/tile_grid.py::TileGrid."
_RN_T = {"networks_red": ty.TSet(ty.Int), "networks_green": ty.TSet(ty.Int)}


def _nets(o, color):
    """the set the code selects for a colour: 'red' -> networks_red, anything else -> networks_green"""
    return o.networks_red if color == "red" else o.networks_green


def _at_most_one(s):
    j, k = z3.Ints("j k")
    return z3.ForAll([j, k], z3.Implies(z3.And(z3.Select(s.member, j), z3.Select(s.member, k)), j == k))


def _empty(s):
    k = z3.Int("k0")
    return z3.ForAll([k], z3.Not(z3.Select(s.member, k)))


can_route = Contract(
    qualname=RN + "can_route_network",
    params={"self": ty.TObj("RelayNode"), "network_id": ty.Int, "wire_color": ty.Str},
    ensures=[("true iff the colour is free or already carries this network",
              lambda a, res: res == Or(_empty(_nets(a.self, a.wire_color)), z3.Select(_nets(a.self, a.wire_color).member, a.network_id)))],
    case_split={"wire_color": ["red", "green"]},
    dynamic_types={"self": _RN_T},
    properties=("C08", "C12"),
    min_obligations=2,
)


def _add_post(a, res):
    new = _nets(a.self, a.wire_color)
    old = _nets(a.old.self, a.wire_color)
    other_new = _nets(a.self, "green" if a.wire_color == "red" else "red")
    other_old = _nets(a.old.self, "green" if a.wire_color == "red" else "red")
    k = z3.Int("kk")
    return And(
        z3.ForAll([k], z3.Select(new.member, k) == z3.Or(z3.Select(old.member, k), k == a.network_id)),
        z3.ForAll([k], z3.Select(other_new.member, k) == z3.Select(other_old.member, k)),
        _at_most_one(new),  # class invariant preserved: at most one network per colour per relay
        _at_most_one(other_new),
    )


add_network = Contract(
    qualname=RN + "add_network",
    params={"self": ty.TObj("RelayNode"), "network_id": ty.Int, "wire_color": ty.Str},
    requires=[("relay invariant: at most one network per colour", lambda a: And(_at_most_one(a.self.networks_red), _at_most_one(a.self.networks_green))),
              ("can_route_network(network_id, wire_color) holds (established at both call sites)",
               lambda a: Or(_empty(_nets(a.self, a.wire_color)), z3.Select(_nets(a.self, a.wire_color).member, a.network_id)))],
    ensures=[("adds exactly this network on this colour and keeps the invariant", _add_post)],
    case_split={"wire_color": ["red", "green"]},
    dynamic_types={"self": _RN_T},
    properties=("C08", "C12"),
    min_obligations=2,
)

# ---- TileGrid ------------------------------------------------------------------------------------
_TG_T = {"_occupied": ty.TSet(ty.TTuple((ty.Int, ty.Int)))}
FOOTPRINTS = [(1, 1), (1, 2), (2, 1), (2, 2), (3, 3)]


def _in_rect(t, pos, fp):
    _S, mk, (fst, snd) = z3.TupleSort("IntPair", [z3.IntSort(), z3.IntSort()])
    return z3.And(fst(t) >= pos[0], fst(t) < pos[0] + fp[0], snd(t) >= pos[1], snd(t) < pos[1] + fp[1])


def _free(occ, pos, fp):
    t = z3.Const("t_free", pair_sort())
    return z3.ForAll([t], z3.Implies(_in_rect(t, pos, fp), z3.Not(z3.Select(occ.member, t))))


def _marked(new, old, pos, fp):
    t = z3.Const("t_mark", pair_sort())
    return z3.ForAll([t], z3.Select(new.member, t) == z3.Or(z3.Select(old.member, t), _in_rect(t, pos, fp)))


def _unchanged(new, old):
    t = z3.Const("t_same", pair_sort())
    return z3.ForAll([t], z3.Select(new.member, t) == z3.Select(old.member, t))


_TG_PARAMS = {"self": ty.TObj("TileGrid"), "tile_pos": ty.TTuple((ty.Int, ty.Int)), "footprint": ty.TTuple((ty.Int, ty.Int))}

is_available = Contract(
    qualname=TG + "is_available", params=_TG_PARAMS,
    ensures=[("true iff no tile of the footprint is occupied", lambda a, res: res == _free(a.self._occupied, a.tile_pos, a.footprint)),
             ("pure", lambda a, res: _unchanged(a.self._occupied, a.old.self._occupied))],
    requires=[("grid exists", lambda a: a.self._occupied is not None)],
    case_split={"footprint": FOOTPRINTS}, dynamic_types={"self": _TG_T}, properties=("C08",), min_obligations=len(FOOTPRINTS),
)

mark_occupied = Contract(
    qualname=TG + "mark_occupied", params=_TG_PARAMS,
    requires=[("grid exists", lambda a: a.self._occupied is not None)],
    ensures=[("occupied' = occupied + footprint rectangle", lambda a, res: _marked(a.self._occupied, a.old.self._occupied, a.tile_pos, a.footprint))],
    case_split={"footprint": FOOTPRINTS}, dynamic_types={"self": _TG_T}, properties=("C08",), min_obligations=len(FOOTPRINTS),
)

reserve_exact = Contract(
    qualname=TG + "reserve_exact", params=_TG_PARAMS,
    requires=[("grid exists", lambda a: a.self._occupied is not None)],
    ensures=[("granted only if every tile was free, and then exactly the rectangle becomes occupied",
              lambda a, res: z3.If(res, z3.And(_free(a.old.self._occupied, a.tile_pos, a.footprint),
                                               _marked(a.self._occupied, a.old.self._occupied, a.tile_pos, a.footprint)),
                                   z3.And(z3.Not(_free(a.old.self._occupied, a.tile_pos, a.footprint)),
                                          _unchanged(a.self._occupied, a.old.self._occupied))))],
    uses={"TileGrid.is_available": "inline", "TileGrid.mark_occupied": "inline"},
    case_split={"footprint": FOOTPRINTS}, dynamic_types={"self": _TG_T}, properties=("C08",), min_obligations=len(FOOTPRINTS),
)

CONTRACTS = [can_route, add_network, is_available, mark_occupied, reserve_exact]

# ---- TileGrid.rebuild_from_placements ---------------------------------------------------------------
# After layout every placement carries its CENTRE; the grid must then hold exactly the tiles of every placed entity:
# occupied = union of the footprint rectangles whose top-left tile is centre - footprint/2 (user-placed, multi-tile and
# 1x1 alike).  Plan of two placements with concrete footprints; centres symbolic (proper centres: k + size/2).
def _rebuild_post(fp1, fp2):
    def post(a, res):
        occ = a.self._occupied
        p1, p2 = a.placements["p1"], a.placements["p2"]
        t = z3.Const("t_rb", pair_sort())
        def tile(p, fp):
            return (z3.ToInt(p.position[0] - z3.RealVal(fp[0]) / 2), z3.ToInt(p.position[1] - z3.RealVal(fp[1]) / 2))
        return z3.ForAll([t], z3.Select(occ.member, t) == z3.Or(_in_rect(t, tile(p1, fp1), fp1), _in_rect(t, tile(p2, fp2), fp2)))
    return post


def _proper_centres(fp1, fp2):
    def req(a):
        cs = []
        for p, fp in ((a.placements["p1"], fp1), (a.placements["p2"], fp2)):
            for i in (0, 1):
                cs.append(z3.IsInt(p.position[i] - z3.RealVal(fp[i]) / 2))
        return z3.And(*cs)
    return req


def _plc_t(fp, with_key):
    props = ((("footprint", ty.TConcrete(fp)),) if with_key else ()) + (("user_specified_position", ty.Bool),)
    return ty.TObj("EntityPlacement", only=("EntityPlacement",), ftypes=(("position", ty.TTuple((ty.Real, ty.Real))), ("properties", ty.TRecord(props))))


def _mark_effect(ex, a):
    occ = a.self._occupied
    t = z3.Const("t_me", pair_sort())
    new = z3.Array(__import__("pyvc.values", fromlist=["fresh_name"]).fresh_name("occ"), pair_sort(), z3.BoolSort())
    ex.assume(z3.ForAll([t], z3.Select(new, t) == z3.Or(z3.Select(occ.member, t), _in_rect(t, a.tile_pos, a.footprint))))
    occ.member = new
    return None


mark_callee = Contract(qualname=TG + "mark_occupied", params=_TG_PARAMS, effect=_mark_effect, verify=False,
                       note="proved above (mark_occupied): occupied' = occupied + rectangle")

for _fp1, _fp2, _k2 in (((2, 2), (1, 1), False), ((3, 3), (1, 2), True), ((1, 1), (2, 1), True)):
    CONTRACTS.append(Contract(
        qualname=TG + "rebuild_from_placements",
        params={"self": ty.TObj("TileGrid"), "placements": ty.TRecord((("p1", _plc_t(_fp1, True)), ("p2", _plc_t(_fp2, _k2))))},
        requires=[("grid exists", lambda a: a.self._occupied is not None), ("positions are proper centres", _proper_centres(_fp1, _fp2))],
        ensures=[("occupied = exactly the footprint rectangles of the placed entities (top-left = centre - footprint/2)", _rebuild_post(_fp1, _fp2))],
        uses={"TileGrid.mark_occupied": mark_callee},
        dynamic_types={"self": _TG_T}, properties=("C08",), min_obligations=1, no_replay=True, note=f"footprints {_fp1} and {_fp2}"))
CONTRACTS.append(mark_callee)


# =================================================================================================
# RelayNetwork.route_signal (with _find_path_through_existing_relays, _plan_and_create_relay_path, _find_or_create_relay_near,
# _create_relay_directed, _finalize_relay_creation) — the C08 statement itself, at function level:
#   the path returned bridges source and sink: EVERY hop (source -> first relay, relay -> relay, last relay -> sink) is within the
#   span limit; endpoints within the limit need no relay; every relay on the path carries THIS network on the path's colour and no
#   other network on that colour (so a relay never joins two circuit networks); every relay created stands on a tile that was free
#   and is recorded in the plan; when no path exists the result is None (the caller flags the layout attempt as failed).
# Evaluated on the REAL methods with real TileGrid / LayoutPlan objects over an enumerated box (distances 5..60 in eight directions,
# free and partly blocked ground, earlier routes of the same / another network on the same / the other colour): bounded.
# =================================================================================================
RSQ = "dsl_compiler/src/layout/connection_planner.py::RelayNetwork.route_signal"


def _route_post(a, res):
    import math
    me, sc = a.self, a.self._scenario
    span = me.span_limit
    if res is None:
        # refusal is allowed on obstructed ground (the layout is retried); on FREE ground a path always exists and must be found
        return not sc["free"]
    by_id = {n.entity_id: n for n in me.relay_nodes.values()}
    pts = [a.source_pos] + [by_id[rid].position for rid, _c in res if rid in by_id] + [a.sink_pos]
    if len(pts) != len(res) + 2:
        return False              # a relay on the path is not registered
    if any(math.dist(p, q) > span + 1e-9 for p, q in zip(pts, pts[1:])):
        return False              # a hop out of reach
    for rid, colour in res:
        node = by_id[rid]
        nets = node.networks_red if colour == "red" else node.networks_green
        if colour != a.wire_color or a.network_id not in nets or len(nets) != 1:
            return False          # wrong colour / not registered / two networks on one colour of one relay
        if rid not in sc["existing"] and rid not in me.layout_plan.entity_placements:
            return False          # created but not in the plan
        if rid not in sc["existing"]:
            tile = (int(math.floor(node.position[0])), int(math.floor(node.position[1])))
            if tile in sc["blocked"]:
                return False      # placed on an occupied tile
    return True


route_signal_box = Contract(qualname=RSQ, params={"self": ty.TOpaque("relays"), "source_pos": ty.TOpaque("p"), "sink_pos": ty.TOpaque("q"), "signal_name": ty.Str, "wire_color": ty.Str,
                                                  "network_id": ty.Int},
                            ensures=[("every hop within the span; every relay carries this network alone on this colour; new relays on free tiles, recorded in the plan; on free ground a path is always found", _route_post)],
                            verify=False, properties=("C08", "C12"), note="evaluated on the real method over an enumerated box (bounded stand-in)")
CONTRACTS.append(route_signal_box)


def route_signal_arg_sets():
    import itertools
    from dsl_compiler.src.common.diagnostics import ProgramDiagnostics
    from dsl_compiler.src.layout.connection_planner import RelayNetwork
    from dsl_compiler.src.layout.layout_plan import LayoutPlan
    from dsl_compiler.src.layout.tile_grid import TileGrid
    out = []
    dirs = [(1, 0), (0, 1), (1, 1), (-1, 0), (0, -1), (-1, 1), (2, 1), (1, -3)]
    for dist, (dx, dy), ground, prior in itertools.product((5, 9, 10, 17, 28, 45, 60), dirs, ("free", "wall", "scattered"), ("none", "same-net", "other-net-same-colour", "other-net-other-colour")):
        import math
        norm = math.hypot(dx, dy)
        src = (50.5, 50.5)
        snk = (50.5 + dist * dx / norm, 50.5 + dist * dy / norm)
        grid, plan = TileGrid(), LayoutPlan()
        blocked = set()
        if ground == "wall":      # a wall of occupied tiles across the straight line, 3 tiles thick
            mid = ((src[0] + snk[0]) / 2, (src[1] + snk[1]) / 2)
            for i in range(-4, 5):
                for t in range(-1, 2):
                    tile = (int(mid[0] - dy / norm * i + dx / norm * t), int(mid[1] + dx / norm * i + dy / norm * t))
                    blocked.add(tile)
        elif ground == "scattered":
            for k in range(0, int(dist), 2):
                blocked.add((int(src[0] + k * dx / norm), int(src[1] + k * dy / norm)))
        for tile in blocked:
            grid.mark_occupied(tile, (1, 1))
        rn = RelayNetwork(grid, {}, {}, 9.0, plan, ProgramDiagnostics(log_level="error"))
        existing = set()
        if prior != "none":
            colour, net = {"same-net": ("red", 7), "other-net-same-colour": ("red", 8), "other-net-other-colour": ("green", 8)}[prior]
            rn.route_signal(src, snk, "signal-P", colour, net)
            existing = {n.entity_id for n in rn.relay_nodes.values()}
        rn._scenario = {"blocked": blocked, "existing": existing, "free": ground == "free"}
        out.append({"self": rn, "source_pos": src, "sink_pos": snk, "signal_name": "signal-S", "wire_color": "red", "network_id": 7})
    return out


# =================================================================================================
# LayoutPlanner.plan_layout — the retry loop (C08: "every placement the layout stage may settle on: optimal, time-limited, retried or
# fallback"): every attempt starts from a fresh state and runs the phases in order (entities, pole grid, positions, trim, grid, connections);
# the loop stops at the FIRST attempt whose routing succeeded; when every one of the max_layout_retries + 1 attempts failed, ONE error is
# recorded (the compile fails: no blueprint with unroutable wires is handed on silently); the plan returned is the last attempt's.
# max_layout_retries = 2 (the shipped default is read from the constructor; bounded here), routing outcomes symbolic.
# =================================================================================================
PL = {}
LPQ = "dsl_compiler/src/layout/planner.py::LayoutPlanner."


def _pl_reset(a):
    PL.clear()
    return True


def _pl_phase(name, ret=None):
    def eff(ex, a):
        PL.setdefault("trace", []).append(name)
        return ret(ex, a) if ret else None
    return eff


def _pl_route(ex, a):
    k = sum(1 for x in PL.get("trace", []) if x == "connections")
    PL.setdefault("trace", []).append("connections")
    from pyvc.ghost import ghost
    return ghost(ex.args_ns.self, f"routing_ok_{k}", ty.Bool)


def _pl_post(a, res):
    trace = PL.get("trace", [])
    attempt = ["reset", "entities", "poles", "positions", "trim", "grid", "connections"]
    if not trace or trace[0] != "analysis" or trace[-2:] != ["grid", "metadata"]:
        return False
    body = trace[1:-2]
    if len(body) % len(attempt) != 0 or any(body[i] != attempt[i % len(attempt)] for i in range(len(body))):
        return False   # every attempt: fresh state, then the phases in order
    n = len(body) // len(attempt)
    oks = [a.self._fields.get(f"@routing_ok_{k}") for k in range(n)]
    if any(o is None for o in oks) or n > 3:
        return False
    errs = len(PL.get("errors", []))
    cs = [Not(o) for o in oks[:-1]]                      # an attempt is only repeated after a failure
    if n < 3:
        cs += [oks[-1], z3.BoolVal(errs == 0)]           # stopped early: the last attempt succeeded, nothing is reported as an error
    else:
        cs.append(z3.If(oks[-1], z3.BoolVal(errs == 0), z3.BoolVal(errs == 1)))   # the last allowed attempt: success, or ONE error
    cs.append(z3.BoolVal(res is a.self.layout_plan))
    return And(*cs)


_PLC = lambda name, key: Contract(qualname=LPQ + name, params={"self": ty.TOpaque("s"), "args": ty.TOpaque("a"), "kwargs": ty.TOpaque("k")}, effect=_pl_phase(key), verify=False,  # noqa: E731
                                  note="a layout phase (recorded)")
CONTRACTS.append(Contract(
    qualname=LPQ + "plan_layout",
    params={"self": ty.TObj("LayoutPlanner", only=("LayoutPlanner",), ftypes=(("max_layout_retries", ty.TConcrete(2)),)), "ir_operations": ty.TOpaque("ir"),
            "blueprint_label": ty.Str, "blueprint_description": ty.Str},
    requires=[("(reset)", _pl_reset)],
    ensures=[("fresh state and all phases in order per attempt; stops at the first routed attempt; all attempts failed: ONE error; the last attempt's plan is returned", _pl_post)],
    uses={"LayoutPlanner._setup_signal_analysis": Contract(qualname=LPQ + "_setup_signal_analysis", params={"self": ty.TOpaque("s"), "ir_operations": ty.TOpaque("i")}, effect=_pl_phase("analysis"),
                                                           verify=False, note="signal analysis (contracts.c13 / c20b)"),
          "LayoutPlanner._reset_layout_state": Contract(qualname=LPQ + "_reset_layout_state", params={"self": ty.TOpaque("s")}, effect=_pl_phase("reset"), verify=False, note="fresh plan, grid and planner"),
          "LayoutPlanner._create_entities": Contract(qualname=LPQ + "_create_entities", params={"self": ty.TOpaque("s"), "ir_operations": ty.TOpaque("i")}, effect=_pl_phase("entities"), verify=False,
                                                     note="placements of the IR nodes (contracts.c07b, cdispatch)"),
          "LayoutPlanner._add_power_pole_grid": Contract(qualname=LPQ + "_add_power_pole_grid", params={"self": ty.TOpaque("s")}, effect=_pl_phase("poles"), verify=False, note="pole grid (C18: geometry, bounded)"),
          "LayoutPlanner._optimize_positions": Contract(qualname=LPQ + "_optimize_positions", params={"self": ty.TOpaque("s"), "time_multiplier": ty.TOpaque("t")}, defaults={"time_multiplier": 1.0},
                                                        effect=_pl_phase("positions"), verify=False, note="CP-SAT positions (C08: geometry + adversary, bounded)"),
          "LayoutPlanner._trim_power_poles": Contract(qualname=LPQ + "_trim_power_poles", params={"self": ty.TOpaque("s")}, effect=_pl_phase("trim"), verify=False, note="proved in contracts.c09"),
          "LayoutPlanner._update_tile_grid": Contract(qualname=LPQ + "_update_tile_grid", params={"self": ty.TOpaque("s")}, effect=_pl_phase("grid"), verify=False, note="occupancy grid from the placements (proved above)"),
          "LayoutPlanner._plan_connections": Contract(qualname=LPQ + "_plan_connections", params={"self": ty.TOpaque("s")}, effect=_pl_route, verify=False,
                                                      note="wires and relays; False when a connection could not be routed"),
          "LayoutPlanner._set_metadata": Contract(qualname=LPQ + "_set_metadata", params={"self": ty.TOpaque("s"), "blueprint_label": ty.TOpaque("l"), "blueprint_description": ty.TOpaque("d")},
                                                  effect=_pl_phase("metadata"), verify=False, note="label and description"),
          "opaque.error": Contract(qualname="dsl_compiler/src/common/diagnostics.py::ProgramDiagnostics.error", params={"args": ty.TOpaque("a"), "kwargs": ty.TOpaque("k")},
                                   effect=lambda ex, a: PL.setdefault("errors", []).append(a.args), verify=False, note="proved in contracts.c14: the error is counted"),
          "opaque.warning": "skip"},
    dynamic_types={"self": {"diagnostics": ty.TOpaque("diag"), "layout_plan": ty.TObj("LayoutPlan", only=("LayoutPlan",))}},
    properties=("C08", "C09"), min_obligations=3, no_replay=True, note="max_layout_retries = 2"))
