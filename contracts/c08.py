"""C08 / C12 contracts: relay isolation invariant and tile reservation."""
from __future__ import annotations

import z3

from pyvc import types as ty
from pyvc.contract import Contract
from pyvc.engine import pair_sort
from spec.ops import And, Implies, Not, Or

RN = "dsl_compiler/src/layout/connection_planner.py::RelayNode."
TG = "dsl_compiler/src/layout/tile_grid.py::TileGrid."
_RN_T = {"networks_red": ty.TSet(ty.Int), "networks_green": ty.TSet(ty.Int)}


def _nets(o, color):
    """the set the code selects for a colour: 'red' -> networks_red, anything else -> networks_green"""
    return o.networks_red if color == "red" else o.networks_green


def _at_most_one(s):
    j, k = z3.Ints("j k")
    return z3.ForAll([j, k], z3.Implies(z3.And(z3.Select(s.member, j), z3.Select(s.member, k)), j == k))


def _empty(s):
    k = z3.Int("k0")
    return z3.ForAll([k], z3.Not(z3.Select(s.member, k)))


can_route = Contract(
    qualname=RN + "can_route_network",
    params={"self": ty.TObj("RelayNode"), "network_id": ty.Int, "wire_color": ty.Str},
    ensures=[("true iff the colour is free or already carries this network",
              lambda a, res: res == Or(_empty(_nets(a.self, a.wire_color)), z3.Select(_nets(a.self, a.wire_color).member, a.network_id)))],
    case_split={"wire_color": ["red", "green"]},
    dynamic_types={"self": _RN_T},
    properties=("C08", "C12"),
    min_obligations=2,
)


def _add_post(a, res):
    new = _nets(a.self, a.wire_color)
    old = _nets(a.old.self, a.wire_color)
    other_new = _nets(a.self, "green" if a.wire_color == "red" else "red")
    other_old = _nets(a.old.self, "green" if a.wire_color == "red" else "red")
    k = z3.Int("kk")
    return And(
        z3.ForAll([k], z3.Select(new.member, k) == z3.Or(z3.Select(old.member, k), k == a.network_id)),
        z3.ForAll([k], z3.Select(other_new.member, k) == z3.Select(other_old.member, k)),
        _at_most_one(new),  # class invariant preserved: at most one network per colour per relay
        _at_most_one(other_new),
    )


add_network = Contract(
    qualname=RN + "add_network",
    params={"self": ty.TObj("RelayNode"), "network_id": ty.Int, "wire_color": ty.Str},
    requires=[("relay invariant: at most one network per colour", lambda a: And(_at_most_one(a.self.networks_red), _at_most_one(a.self.networks_green))),
              ("can_route_network(network_id, wire_color) holds (established at both call sites)",
               lambda a: Or(_empty(_nets(a.self, a.wire_color)), z3.Select(_nets(a.self, a.wire_color).member, a.network_id)))],
    ensures=[("adds exactly this network on this colour and keeps the invariant", _add_post)],
    case_split={"wire_color": ["red", "green"]},
    dynamic_types={"self": _RN_T},
    properties=("C08", "C12"),
    min_obligations=2,
)

# ---- TileGrid ------------------------------------------------------------------------------------
_TG_T = {"_occupied": ty.TSet(ty.TTuple((ty.Int, ty.Int)))}
FOOTPRINTS = [(1, 1), (1, 2), (2, 1), (2, 2), (3, 3)]


def _in_rect(t, pos, fp):
    _S, mk, (fst, snd) = z3.TupleSort("IntPair", [z3.IntSort(), z3.IntSort()])
    return z3.And(fst(t) >= pos[0], fst(t) < pos[0] + fp[0], snd(t) >= pos[1], snd(t) < pos[1] + fp[1])


def _free(occ, pos, fp):
    t = z3.Const("t_free", pair_sort())
    return z3.ForAll([t], z3.Implies(_in_rect(t, pos, fp), z3.Not(z3.Select(occ.member, t))))


def _marked(new, old, pos, fp):
    t = z3.Const("t_mark", pair_sort())
    return z3.ForAll([t], z3.Select(new.member, t) == z3.Or(z3.Select(old.member, t), _in_rect(t, pos, fp)))


def _unchanged(new, old):
    t = z3.Const("t_same", pair_sort())
    return z3.ForAll([t], z3.Select(new.member, t) == z3.Select(old.member, t))


_TG_PARAMS = {"self": ty.TObj("TileGrid"), "tile_pos": ty.TTuple((ty.Int, ty.Int)), "footprint": ty.TTuple((ty.Int, ty.Int))}

is_available = Contract(
    qualname=TG + "is_available", params=_TG_PARAMS,
    ensures=[("true iff no tile of the footprint is occupied", lambda a, res: res == _free(a.self._occupied, a.tile_pos, a.footprint)),
             ("pure", lambda a, res: _unchanged(a.self._occupied, a.old.self._occupied))],
    requires=[("grid exists", lambda a: a.self._occupied is not None)],
    case_split={"footprint": FOOTPRINTS}, dynamic_types={"self": _TG_T}, properties=("C08",), min_obligations=len(FOOTPRINTS),
)

mark_occupied = Contract(
    qualname=TG + "mark_occupied", params=_TG_PARAMS,
    requires=[("grid exists", lambda a: a.self._occupied is not None)],
    ensures=[("occupied' = occupied + footprint rectangle", lambda a, res: _marked(a.self._occupied, a.old.self._occupied, a.tile_pos, a.footprint))],
    case_split={"footprint": FOOTPRINTS}, dynamic_types={"self": _TG_T}, properties=("C08",), min_obligations=len(FOOTPRINTS),
)

reserve_exact = Contract(
    qualname=TG + "reserve_exact", params=_TG_PARAMS,
    requires=[("grid exists", lambda a: a.self._occupied is not None)],
    ensures=[("granted only if every tile was free, and then exactly the rectangle becomes occupied",
              lambda a, res: z3.If(res, z3.And(_free(a.old.self._occupied, a.tile_pos, a.footprint),
                                               _marked(a.self._occupied, a.old.self._occupied, a.tile_pos, a.footprint)),
                                   z3.And(z3.Not(_free(a.old.self._occupied, a.tile_pos, a.footprint)),
                                          _unchanged(a.self._occupied, a.old.self._occupied))))],
    uses={"TileGrid.is_available": "inline", "TileGrid.mark_occupied": "inline"},
    case_split={"footprint": FOOTPRINTS}, dynamic_types={"self": _TG_T}, properties=("C08",), min_obligations=len(FOOTPRINTS),
)

CONTRACTS = [can_route, add_network, is_available, mark_occupied, reserve_exact]

# ---- TileGrid.rebuild_from_placements ---------------------------------------------------------------
# After layout every placement carries its CENTRE; the grid must then hold exactly the tiles of every placed entity:
# occupied = union of the footprint rectangles whose top-left tile is centre - footprint/2 (user-placed, multi-tile and
# 1x1 alike).  Plan of two placements with concrete footprints; centres symbolic (proper centres: k + size/2).
def _rebuild_post(fp1, fp2):
    def post(a, res):
        occ = a.self._occupied
        p1, p2 = a.placements["p1"], a.placements["p2"]
        t = z3.Const("t_rb", pair_sort())
        def tile(p, fp):
            return (z3.ToInt(p.position[0] - z3.RealVal(fp[0]) / 2), z3.ToInt(p.position[1] - z3.RealVal(fp[1]) / 2))
        return z3.ForAll([t], z3.Select(occ.member, t) == z3.Or(_in_rect(t, tile(p1, fp1), fp1), _in_rect(t, tile(p2, fp2), fp2)))
    return post


def _proper_centres(fp1, fp2):
    def req(a):
        cs = []
        for p, fp in ((a.placements["p1"], fp1), (a.placements["p2"], fp2)):
            for i in (0, 1):
                cs.append(z3.IsInt(p.position[i] - z3.RealVal(fp[i]) / 2))
        return z3.And(*cs)
    return req


def _plc_t(fp, with_key):
    props = ((("footprint", ty.TConcrete(fp)),) if with_key else ()) + (("user_specified_position", ty.Bool),)
    return ty.TObj("EntityPlacement", only=("EntityPlacement",), ftypes=(("position", ty.TTuple((ty.Real, ty.Real))), ("properties", ty.TRecord(props))))


def _mark_effect(ex, a):
    occ = a.self._occupied
    t = z3.Const("t_me", pair_sort())
    new = z3.Array(__import__("pyvc.values", fromlist=["fresh_name"]).fresh_name("occ"), pair_sort(), z3.BoolSort())
    ex.assume(z3.ForAll([t], z3.Select(new, t) == z3.Or(z3.Select(occ.member, t), _in_rect(t, a.tile_pos, a.footprint))))
    occ.member = new
    return None


mark_callee = Contract(qualname=TG + "mark_occupied", params=_TG_PARAMS, effect=_mark_effect, verify=False,
                       note="proved above (mark_occupied): occupied' = occupied + rectangle")

for _fp1, _fp2, _k2 in (((2, 2), (1, 1), False), ((3, 3), (1, 2), True), ((1, 1), (2, 1), True)):
    CONTRACTS.append(Contract(
        qualname=TG + "rebuild_from_placements",
        params={"self": ty.TObj("TileGrid"), "placements": ty.TRecord((("p1", _plc_t(_fp1, True)), ("p2", _plc_t(_fp2, _k2))))},
        requires=[("grid exists", lambda a: a.self._occupied is not None), ("positions are proper centres", _proper_centres(_fp1, _fp2))],
        ensures=[("occupied = exactly the footprint rectangles of the placed entities (top-left = centre - footprint/2)", _rebuild_post(_fp1, _fp2))],
        uses={"TileGrid.mark_occupied": mark_callee},
        dynamic_types={"self": _TG_T}, properties=("C08",), min_obligations=1, no_replay=True, note=f"footprints {_fp1} and {_fp2}"))
CONTRACTS.append(mark_callee)
