"""C05 / C03, lowering side of memory access (MemoryLowerer): which IR node a `m.write(...)` / `m.read()` becomes.

  lower_write_expr                 a write to an undeclared cell, or to a cell an earlier write() already wrote (through whatever loop iteration,
                                   call or nested scope), is an error (and a harmless constant 0); otherwise the cell is recorded as written and a
                                   write with set= / reset= goes to the latch path, any other write to the standard path — never the other way round
  _lower_latch_write               the value is lowered once; the inlined form is chosen exactly when BOTH conditions were extracted
  _try_extract_inline_conditions   (None, None), or the two comparisons as written — set's operator and constant with set, reset's
                                   with reset — over ONE reference, the lowering of the identifier both compare
  _lower_latch_write_inlined       one IRLatchWrite: this cell, this value, set priority <=> SR latch, set condition = the set
                                   comparison and reset condition = the reset comparison (not exchanged); result on the declared type
  _lower_latch_write_standard      one IRLatchWrite: set = lowering of the set expression, reset = lowering of the reset expression (not
                                   exchanged), priority as written; result on the SET signal's type (the feedback must meet the set input)
  lower_read_expr                  one IRMemRead of the declared cell on the cell's declared type"""
from __future__ import annotations

import z3

from pyvc import types as ty
from pyvc.contract import Contract
from pyvc.ghost import ghost, isa
from pyvc.values import SObj, fresh_name
from spec import ops
from spec.ops import And, Implies, Not, Or

ML = "dsl_compiler/src/lowering/memory_lowerer.py::MemoryLowerer."
_OPQ = ty.TOpaque("x")
_SRC = ty.TObj("SignalRef", only=("SignalRef",))
_LOWERED = ty.TUnion((ty.Int, _SRC))
CALLS = {}


def _reset(a):
    CALLS.clear()
    return True


def _rec(kind, ret=None):
    def eff(ex, a):
        CALLS.setdefault(kind, []).append(a)
        return ret(ex, a) if ret else None
    return eff


def _lower_expr(ex, a):
    e = a.args[0]
    CALLS.setdefault("lower_expr", []).append(e)
    return ghost(e, "lowered", _LOWERED)


lower_expr = Contract(qualname="dsl_compiler/src/lowering/expression_lowerer.py::ExpressionLowerer.lower_expr", params={"args": _OPQ}, effect=_lower_expr, verify=False,
                      note="the lowered value of an expression (an integer or a signal reference)")
mem_sig_type = Contract(qualname=ML + "_memory_signal_type", params={"self": _OPQ, "memory_name": _OPQ}, effect=lambda ex, a: ghost(ex.args_ns.self, "declared_type", ty.TOpt(ty.Str)),
                        verify=False, note="the declared signal type of the cell (None when untyped)")
ensure_reg = Contract(qualname="dsl_compiler/src/lowering/lowerer.py::ASTLowerer.ensure_signal_registered", params={"self": _OPQ, "signal_key": _OPQ, "signal_type": _OPQ},
                      defaults={"signal_type": None}, effect=_rec("registered"), verify=False, note="registers the name with the signal registry")
_LATCH_P = {"self": _OPQ, "memory_id": _OPQ, "value": _OPQ, "set_signal": _OPQ, "reset_signal": _OPQ, "latch_type": _OPQ, "source_ast": _OPQ, "set_condition": _OPQ, "reset_condition": _OPQ}
latch_write = Contract(qualname="dsl_compiler/src/ir/builder.py::IRBuilder.latch_write", params=_LATCH_P, defaults={"source_ast": None, "set_condition": None, "reset_condition": None},
                       effect=_rec("latch_write"), verify=False, note="verified separately (contracts.c02): one IRLatchWrite carrying exactly these arguments")
implicit = Contract(qualname="dsl_compiler/src/ir/builder.py::IRBuilder.allocate_implicit_type", params={"self": _OPQ}, effect=lambda ex, a: z3.String("fresh_implicit_type"), verify=False,
                    note="fresh implicit type name")
_SELF = ty.TObj("MemoryLowerer", only=("MemoryLowerer",))
_DYN = {"self": {"parent": ty.TObj("ASTLowerer", only=("ASTLowerer",))},
        "self.parent": {"expr_lowerer": ty.TOpaque("expr_lowerer"), "ir_builder": ty.TObj("IRBuilder", only=("IRBuilder",)), "diagnostics": ty.TOpaque("diag"),
                        "memory_refs": ty.TDict(ty.Str, ty.Str)}}
_USES = {"opaque.lower_expr": lower_expr, "MemoryLowerer._memory_signal_type": mem_sig_type, "ASTLowerer.ensure_signal_registered": ensure_reg, "IRBuilder.latch_write": latch_write,
         "IRBuilder.allocate_implicit_type": implicit, "ASTLowerer.push_expr_context": "skip", "ASTLowerer.pop_expr_context": "skip", "opaque.info": "skip",
         "MemoryLowerer.ir_builder": "inline", "MemoryLowerer.diagnostics": "inline", "MemoryLowerer.semantic": "inline"}
_WRITE = ty.TObj("WriteExpr", only=("WriteExpr",), ftypes=(("memory_name", ty.Str), ("set_priority", ty.Bool), ("value", ty.TObj("Expr")), ("set_signal", ty.TObj("Expr")),
                                                           ("reset_signal", ty.TObj("Expr"))))
_COND = ty.TTuple((_SRC, ty.Str, ty.Int))


def _kind(expr):
    return ops.ite(expr.set_priority, z3.StringVal("sr_latch"), z3.StringVal("rs_latch"))


# ---------------------------------------------------------------------------------------------------------------------
def _inlined_post(a, res):
    lw = CALLS.get("latch_write", [])
    if len(lw) != 1:
        return False
    c = lw[0]
    declared = a.self._fields.get("@declared_type")
    want_type = declared if declared is not None else a.set_condition[0].signal_type
    return And(c.memory_id is a.memory_id, c.value is a.latch_value, c.set_condition is a.set_condition, c.reset_condition is a.reset_condition,
               c.latch_type == _kind(a.expr), isa(res, "SignalRef"), res.source_id is a.memory_id, ops.eq(res.signal_type, want_type))


inlined = Contract(
    qualname=ML + "_lower_latch_write_inlined",
    params={"self": _SELF, "expr": _WRITE, "memory_id": ty.Str, "memory_name": ty.Str, "latch_value": _LOWERED, "set_condition": _COND, "reset_condition": _COND},
    requires=[("(reset capture)", _reset)],
    ensures=[("one latch write: this cell and value, SR iff set priority, set condition with set and reset condition with reset; result on the declared type", _inlined_post)],
    uses=_USES, dynamic_types=_DYN, properties=("C05",), min_obligations=2, no_replay=True)


# ---------------------------------------------------------------------------------------------------------------------
def _standard_post(a, res):
    lw = CALLS.get("latch_write", [])
    if len(lw) != 1:
        return False
    c = lw[0]
    set_ref, reset_ref = a.expr.set_signal._fields.get("@lowered"), a.expr.reset_signal._fields.get("@lowered")
    cs = [c.memory_id is a.memory_id, c.value is a.latch_value, c.set_signal is set_ref, c.reset_signal is reset_ref, c.set_condition is None, c.reset_condition is None,
          c.latch_type == _kind(a.expr), isa(res, "SignalRef"), res.source_id is a.memory_id]
    if isinstance(set_ref, SObj):
        cs.append(res.signal_type is set_ref.signal_type)
    else:
        cs.append(len(CALLS.get("error", [])) >= 1)
    return And(*[x if not isinstance(x, bool) else z3.BoolVal(x) for x in cs])


error_c = Contract(qualname=ML + "_error", params={"self": _OPQ, "message": _OPQ, "node": _OPQ}, defaults={"node": None}, effect=_rec("error"), verify=False,
                   note="records a compile error (C14: an error stops the pipeline)")
standard = Contract(
    qualname=ML + "_lower_latch_write_standard",
    params={"self": _SELF, "expr": _WRITE, "memory_id": ty.Str, "memory_name": ty.Str, "latch_value": _LOWERED},
    requires=[("(reset capture)", _reset)],
    ensures=[("one latch write: set = lowering of the set expression, reset = lowering of the reset expression, priority as written; result on the set signal's type "
              "(an integer set is reported as an error)", _standard_post)],
    uses={**_USES, "MemoryLowerer._error": error_c}, dynamic_types=_DYN, properties=("C05",), min_obligations=2, no_replay=True)


# ---------------------------------------------------------------------------------------------------------------------
def _cmp_of(ex, a):
    return ghost(a.expr, "cmp", ty.TOpt(ty.TTuple((ty.Str, ty.Str, ty.Int))))


extract_cmp = Contract(qualname=ML + "_extract_simple_comparison", params={"self": _OPQ, "expr": _OPQ}, effect=_cmp_of, verify=False,
                       note="verified separately (contracts.c05): (name, operator, constant) of a comparison `name CMP constant`, else None")


def _extract_post(a, res):
    if not (isinstance(res, tuple) and len(res) == 2):
        return False
    s, r = a.set_expr._fields.get("@cmp"), a.reset_expr._fields.get("@cmp")
    if res[0] is None or res[1] is None:
        return res[0] is None and res[1] is None
    if s is None or r is None:
        return False
    lowered = CALLS.get("lower_expr", [])
    if len(lowered) != 1:
        return False
    ident = lowered[0]
    ref = ident._fields.get("@lowered")
    (sref, sop, sconst), (rref, rop, rconst) = res
    return And(s[0] == r[0], isa(ident, "IdentifierExpr"), ident.name is s[0], isinstance(ref, SObj), sref is ref, rref is ref,
               sop is s[1], sconst is s[2], rop is r[1], rconst is r[2])


extract_conditions = Contract(
    qualname=ML + "_try_extract_inline_conditions",
    params={"self": _SELF, "set_expr": ty.TObj("Expr", only=("BinaryOp", "IdentifierExpr"), ftypes=(("line", ty.Int), ("column", ty.Int))),
            "reset_expr": ty.TObj("Expr", only=("BinaryOp", "IdentifierExpr"), ftypes=(("line", ty.Int), ("column", ty.Int))), "memory_name": ty.Str},
    requires=[("(reset capture)", _reset)],
    ensures=[("(None, None), or set's comparison with set and reset's with reset over the one lowered reference of the identifier both compare", _extract_post)],
    uses={**_USES, "MemoryLowerer._extract_simple_comparison": extract_cmp}, dynamic_types=_DYN, properties=("C05",), min_obligations=3, no_replay=True)


# ---------------------------------------------------------------------------------------------------------------------
def _extract_pair(ex, a):
    CALLS.setdefault("extract", []).append(a)
    both = ghost(ex.args_ns.expr, "conds", ty.TOpt(ty.TTuple((_COND, _COND))))
    return (None, None) if both is None else (both[0], both[1])


extract_pair = Contract(qualname=ML + "_try_extract_inline_conditions", params={"self": _OPQ, "set_expr": _OPQ, "reset_expr": _OPQ, "memory_name": _OPQ}, effect=_extract_pair,
                        verify=False, note="proved above: both conditions or neither")
inlined_c = Contract(qualname=ML + "_lower_latch_write_inlined", params={"self": _OPQ, "expr": _OPQ, "memory_id": _OPQ, "memory_name": _OPQ, "latch_value": _OPQ, "set_condition": _OPQ,
                                                                         "reset_condition": _OPQ}, effect=_rec("inlined", lambda ex, a: SObj(["SignalRef"], fresh_name("inl"), lazy=True)),
                     verify=False, note="proved above")
standard_c = Contract(qualname=ML + "_lower_latch_write_standard", params={"self": _OPQ, "expr": _OPQ, "memory_id": _OPQ, "memory_name": _OPQ, "latch_value": _OPQ},
                      effect=_rec("standard", lambda ex, a: SObj(["SignalRef"], fresh_name("std"), lazy=True)), verify=False, note="proved above")


def _dispatch_post(a, res):
    e = a.expr
    ex_calls = CALLS.get("extract", [])
    if len(ex_calls) != 1 or not (ex_calls[0].set_expr is e.set_signal and ex_calls[0].reset_expr is e.reset_signal):
        return False
    value = e.value._fields.get("@lowered")
    mid = z3.Select(a.self.parent.memory_refs.vals, e.memory_name)
    conds = e._fields.get("@conds")
    inl, std = CALLS.get("inlined", []), CALLS.get("standard", [])
    if conds is not None:
        if len(inl) != 1 or std:
            return False
        c = inl[0]
        return And(c.expr is e, c.memory_id == mid, c.latch_value is value, c.set_condition is conds[0], c.reset_condition is conds[1])
    if len(std) != 1 or inl:
        return False
    c = std[0]
    return And(c.expr is e, c.memory_id == mid, c.latch_value is value)


latch_dispatch = Contract(
    qualname=ML + "_lower_latch_write", params={"self": _SELF, "expr": _WRITE},
    requires=[("(reset capture)", _reset), ("the cell is declared (checked by lower_write_expr)", lambda a: z3.Select(a.self.parent.memory_refs.present, a.expr.memory_name))],
    ensures=[("value lowered once; the inlined form exactly when both conditions were extracted (set with set, reset with reset), else the standard form", _dispatch_post)],
    uses={**_USES, "MemoryLowerer._try_extract_inline_conditions": extract_pair, "MemoryLowerer._lower_latch_write_inlined": inlined_c, "MemoryLowerer._lower_latch_write_standard": standard_c},
    dynamic_types=_DYN, properties=("C05",), min_obligations=2, no_replay=True)


# ---------------------------------------------------------------------------------------------------------------------
latch_c = Contract(qualname=ML + "_lower_latch_write", params={"self": _OPQ, "expr": _OPQ}, effect=_rec("latch", lambda ex, a: SObj(["SignalRef"], fresh_name("latch_ref"), lazy=True)),
                   verify=False, note="proved above")
std_write_c = Contract(qualname=ML + "_lower_standard_write", params={"self": _OPQ, "expr": _OPQ}, effect=_rec("stdwrite", lambda ex, a: SObj(["SignalRef"], fresh_name("write_ref"), lazy=True)),
                       verify=False, note="verified separately (contracts.c03)")
is_latch = Contract(qualname="dsl_compiler/src/ast/expressions.py::WriteExpr.is_latch_write", params={"self": _OPQ}, effect=lambda ex, a: ghost(a.self, "is_latch", ty.Bool), verify=False,
                    note="two-line accessor: set and reset are both given")
const_c = Contract(qualname="dsl_compiler/src/ir/builder.py::IRBuilder.const", params={"self": _OPQ, "signal_type": _OPQ, "value": _OPQ, "source_ast": _OPQ}, defaults={"source_ast": None},
                   effect=_rec("const", lambda ex, a: SObj(["SignalRef"], fresh_name("const_ref"), lazy=True)), verify=False, note="verified separately (contracts.c02)")


def _write_post(a, res):
    declared = z3.Select(a.old.self.parent.memory_refs.present, a.expr.memory_name)
    cell = z3.Select(a.old.self.parent.memory_refs.vals, a.expr.memory_name)
    written_before = z3.Select(a.old.self._written_cells.member, cell)
    k = z3.String("any_cell")
    latch, std, errs, consts = CALLS.get("latch", []), CALLS.get("stdwrite", []), CALLS.get("error", []), CALLS.get("const", [])
    if errs:
        # refused: an undeclared cell, or a cell some earlier write() already wrote (whatever scope, iteration or call it came from);
        # nothing is lowered and the set of written cells is unchanged
        unchanged = z3.ForAll([k], z3.Select(a.self._written_cells.member, k) == z3.Select(a.old.self._written_cells.member, k))
        return And(Or(Not(declared), written_before), len(errs) == 1 and not latch and not std and len(consts) == 1 and ops.eq(consts[0].value, 0) is not False, ops.eq(consts[0].value, 0),
                   unchanged)
    flag = a.expr._fields.get("@is_latch")
    if flag is None:
        return False
    # accepted: the first write of this cell, which is recorded (and no other cell is)
    recorded = z3.ForAll([k], z3.Select(a.self._written_cells.member, k) == Or(k == cell, z3.Select(a.old.self._written_cells.member, k)))
    if latch:
        return And(declared, Not(written_before), recorded, flag, len(latch) == 1 and not std and latch[0].expr is a.expr and res is not None)
    return And(declared, Not(written_before), recorded, Not(flag), len(std) == 1 and std[0].expr is a.expr)


write_dispatch = Contract(
    qualname=ML + "lower_write_expr", params={"self": _SELF, "expr": _WRITE},
    requires=[("(reset capture)", _reset)],
    ensures=[("undeclared cell or a cell already written: ONE error and a constant 0, nothing lowered; otherwise the cell is recorded as written and set=/reset= goes to the latch path, "
              "anything else to the standard path", _write_post)],
    uses={**_USES, "MemoryLowerer._error": error_c, "MemoryLowerer._lower_latch_write": latch_c, "MemoryLowerer._lower_standard_write": std_write_c, "WriteExpr.is_latch_write": is_latch,
          "IRBuilder.const": const_c},
    dynamic_types={**_DYN, "self": {**_DYN["self"], "_written_cells": ty.TSet(ty.Str)}}, properties=("C05", "C03", "C14"), min_obligations=4, no_replay=True)


# ---------------------------------------------------------------------------------------------------------------------
mem_read = Contract(qualname="dsl_compiler/src/ir/builder.py::IRBuilder.memory_read", params={"self": _OPQ, "memory_id": _OPQ, "signal_type": _OPQ, "source_ast": _OPQ},
                    defaults={"source_ast": None}, effect=_rec("read", lambda ex, a: SObj(["SignalRef"], fresh_name("read_ref"), lazy=True)), verify=False,
                    note="verified separately (contracts.c02): one IRMemRead of this cell on this type")


def _read_post(a, res):
    declared = z3.Select(a.self.parent.memory_refs.present, a.expr.memory_name)
    reads, errs, consts = CALLS.get("read", []), CALLS.get("error", []), CALLS.get("const", [])
    if errs:
        return And(Not(declared), not reads and len(consts) == 1, ops.eq(consts[0].value, 0))
    if len(reads) != 1:
        return False
    t = a.self._fields.get("@declared_type")
    want = t if t is not None else z3.String("fresh_implicit_type")
    return And(declared, reads[0].memory_id == z3.Select(a.self.parent.memory_refs.vals, a.expr.memory_name), ops.eq(reads[0].signal_type, want))


read_expr = Contract(
    qualname=ML + "lower_read_expr", params={"self": _SELF, "expr": ty.TObj("ReadExpr", only=("ReadExpr",), ftypes=(("memory_name", ty.Str),))},
    requires=[("(reset capture)", _reset)],
    ensures=[("undeclared cell: error and a constant 0; otherwise one read of the declared cell's id on its declared type (a fresh implicit type when untyped)", _read_post)],
    uses={**_USES, "MemoryLowerer._error": error_c, "IRBuilder.memory_read": mem_read, "IRBuilder.const": const_c, "opaque._attach_expr_context": "skip"},
    dynamic_types=_DYN, properties=("C03", "C04", "C05"), min_obligations=2, no_replay=True)

CONTRACTS = [inlined, standard, extract_conditions, latch_dispatch, write_dispatch, read_expr,
             lower_expr, mem_sig_type, ensure_reg, latch_write, implicit, error_c, extract_cmp, extract_pair, inlined_c, standard_c, latch_c, std_write_c, is_latch, const_c, mem_read]
