"""K5 contracts (C01/C02/C20): what may be inlined and what must exist as a combinator.

SignalAnalyzer._decide_materialization: a value is left out of the blueprint (should_materialize = False) only if it is
suppressed explicitly or is an anonymous scalar constant that somebody consumes; declared values (the blueprint's inputs),
outputs and bundle constants always get their combinator.
SignalAnalyzer.get_operand_for_combinator: an operand is replaced by an integer only for such an inlinable constant, and
the integer is the constant's recorded literal value."""
from __future__ import annotations

import z3

from pyvc import types as ty
from pyvc.contract import Contract
from pyvc.ghost import isa
from pyvc.values import SObj
from spec import ops
from spec.ops import And, Implies, Not, Or

SA = "dsl_compiler/src/layout/signal_analyzer.py::SignalAnalyzer."
_PROD = ty.TOpt(ty.TObj("IRNode", only=("IRConst", "IRArith", "IRDecider"), ftypes=(
    ("debug_metadata", ty.TRecord((("user_declared", ty.Bool), ("suppress_materialization", ty.Bool)))),
    ("signals", ty.TDict(ty.Str, ty.Int)), ("value", ty.Int))))
_ENTRY_F = (("producer", _PROD), ("debug_metadata", ty.TRecord((("suppress_materialization", ty.Bool), ("is_output", ty.Bool)))),
            ("is_typed_literal", ty.Bool), ("export_targets", ty.TSet(ty.Str)), ("consumers", ty.TSet(ty.Str)),
            ("debug_label", ty.TOpt(ty.Str)), ("signal_id", ty.Str), ("should_materialize", ty.Bool), ("literal_value", ty.TOpt(ty.Int)))
_ENTRY = ty.TObj("SignalUsageEntry", only=("SignalUsageEntry",), ftypes=_ENTRY_F)


def _nonempty_dict(d):
    k = z3.String("some_key")
    return z3.Exists([k], z3.Select(d.present, k))


def _mat_post(a, res):
    e = a.entry
    p = e.producer
    sm = e.should_materialize
    suppressed_entry = e.debug_metadata["suppress_materialization"]
    if p is None:
        return Implies(Not(sm), suppressed_entry)
    declared = p.debug_metadata["user_declared"]
    suppressed = Or(suppressed_entry, p.debug_metadata["suppress_materialization"])
    cs = [Implies(declared, sm)]  # the blueprint's inputs / declared values always exist
    if isa(p, "IRConst"):
        anonymous_scalar = And(Not(declared), Not(e.debug_metadata["is_output"]), Not(_nonempty_dict(p.signals)), Not(e.is_typed_literal))
        cs.append(Implies(Not(sm), Or(suppressed, anonymous_scalar)))
    else:
        cs.append(Implies(Not(sm), suppressed))
    return And(*cs)


decide = Contract(
    qualname=SA + "_decide_materialization",
    params={"self": ty.TObj("SignalAnalyzer", only=("SignalAnalyzer",)), "entry": _ENTRY},
    ensures=[("left out only if suppressed or an anonymous consumed scalar constant; declared values, outputs and bundle constants exist", _mat_post)],
    properties=("C20", "C01", "C02"), min_obligations=3, no_replay=True,
)
CONTRACTS = [decide]

_USAGE = ty.TObjMap(ty.Str, _ENTRY)


def _operand_post(a, res):
    op = a.operand
    if not isinstance(op, SObj):
        return res is op if not ops.is_sym(op) else ops.eq(res, op)
    usage = a.self.signal_usage
    looked = [r for (k, r) in usage.lookups if r is not None]
    is_int = ops.is_sym(res) and z3.is_int(res) or isinstance(res, int)
    if not is_int:
        return True  # a signal name: resolved by resolve_signal_name / get_signal_name (not part of this clause)
    # an integer result: some looked-up entry of this source is an inlinable constant with exactly this literal
    cs = []
    for e in looked:
        p = e.producer
        if p is None or not isa(p, "IRConst") or e.literal_value is None:
            continue
        cs.append(And(Not(e.should_materialize), ops.eq(res, e.literal_value)))
    return Or(*cs) if cs else False


operand = Contract(
    qualname=SA + "get_operand_for_combinator",
    params={"self": ty.TObj("SignalAnalyzer", only=("SignalAnalyzer",)), "operand": ty.TUnion((ty.Int, ty.TObj("SignalRef", only=("SignalRef",))))},
    ensures=[("an integer operand stays; a reference becomes an integer only for a non-materialized constant, and then its literal value", _operand_post)],
    uses={"SignalAnalyzer.resolve_signal_name": "skip", "SignalAnalyzer.get_signal_name": "skip",
          "SignalAnalyzer.inline_value": "inline", "SignalAnalyzer.can_inline_constant": "inline"},
    dynamic_types={"self": {"signal_usage": _USAGE}},
    properties=("C01", "C02", "C20"), min_obligations=3, no_replay=True,
)
CONTRACTS.append(operand)


# =================================================================================================
# SignalAnalyzer.analyze — the bookkeeping that decides which named results get an anchor (C20):
#   consumers(n)      = the nodes that read n
#   aliases(n)        = the variable names bound to n;   output_aliases(n) = those of them the program never reads
#   is_output(n)      <=> n is a labelled value nobody consumes, or n has an output alias
# Evaluated on the REAL method over an enumerated box: a three-node program (input x, t = x * 3, u = t + 1) with names
# x, total, alias, out and every subset of {x, total, alias, out} as the set of names the program reads — each also with a named twin of t
# that CSE eliminated (its names must become names of t): bounded.
# =================================================================================================
import itertools as _it2  # noqa: E402

ANQ = "dsl_compiler/src/layout/signal_analyzer.py::SignalAnalyzer.analyze"


def _analyze_post(a, res):
    me = a.self
    names_of = {}
    merged = getattr(me, "_merged_into", {})   # (scenario) a node eliminated as a common subexpression lives on in its twin: its names are the twin's
    for name, ref in me.signal_refs.items():
        names_of.setdefault(merged.get(ref.source_id, ref.source_id), set()).add(name)
    readers = {"x": {"t"}, "t": {"u"}, "u": set()}
    for nid in ("x", "t", "u"):
        e = res.get(nid)
        if e is None:
            return False
        if set(e.consumers) != readers[nid]:
            return False
        want_alias = {n for n in names_of.get(nid, set()) if n not in me.referenced_signal_names}
        if set(e.output_aliases) != want_alias:
            return False
        labelled = bool(e.debug_label) and e.debug_label != nid
        want_out = (labelled and not readers[nid]) or bool(want_alias)
        if bool(e.debug_metadata.get("is_output")) != want_out:
            return False
    return True


analyze_contract = Contract(qualname=ANQ, params={"self": ty.TOpaque("analyzer"), "ir_operations": ty.TOpaque("ops")},
                            ensures=[("consumers, output aliases (declared but never read) and the output mark are exactly what the program's names and reads say", _analyze_post)],
                            verify=False, properties=("C20",), note="evaluated on the real method over an enumerated box (bounded stand-in)")
CONTRACTS.append(analyze_contract)


def analyze_arg_sets():
    from dsl_compiler.src.common.diagnostics import ProgramDiagnostics
    from dsl_compiler.src.ir import nodes as N
    from dsl_compiler.src.layout.signal_analyzer import SignalAnalyzer
    out = []
    names = ["x", "total", "alias", "out"]
    for k in range(len(names) + 1):
        for read in _it2.combinations(names, k):
            x = N.IRConst("x", "signal-A"); x.value = 6; x.debug_label = "x"; x.debug_metadata["user_declared"] = True
            t = N.IRArith("t", "signal-A"); t.op = "*"; t.left = N.SignalRef("signal-A", "x"); t.right = 3; t.debug_label = "total"
            u = N.IRArith("u", "signal-A"); u.op = "+"; u.left = N.SignalRef("signal-A", "t"); u.right = 1; u.debug_label = "out"
            refs = {"x": N.SignalRef("signal-A", "x"), "total": N.SignalRef("signal-A", "t"), "alias": N.SignalRef("signal-A", "t"), "out": N.SignalRef("signal-A", "u")}
            an = SignalAnalyzer(ProgramDiagnostics(log_level="error"), {}, signal_refs=refs, referenced_signal_names=set(read))
            out.append({"self": an, "ir_operations": [x, t, u]})
            # the same program after CSE removed a twin of t that the program had named `twin` (recorded on t by the optimizer)
            x2 = N.IRConst("x", "signal-A"); x2.value = 6; x2.debug_label = "x"; x2.debug_metadata["user_declared"] = True
            t2 = N.IRArith("t", "signal-A"); t2.op = "*"; t2.left = N.SignalRef("signal-A", "x"); t2.right = 3; t2.debug_label = "total"
            t2.debug_metadata["cse_merged_ids"] = ["t_twin"]
            u2 = N.IRArith("u", "signal-A"); u2.op = "+"; u2.left = N.SignalRef("signal-A", "t"); u2.right = 1; u2.debug_label = "out"
            refs2 = dict(refs)
            refs2["twin"] = N.SignalRef("signal-A", "t_twin")
            an2 = SignalAnalyzer(ProgramDiagnostics(log_level="error"), {}, signal_refs=refs2, referenced_signal_names=set(read))
            an2._merged_into = {"t_twin": "t"}
            out.append({"self": an2, "ir_operations": [x2, t2, u2]})
    return out
