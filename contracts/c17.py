"""C17: imports are textual inclusion (function level).

resolve_import_path   the file is looked up first next to the importing file, then in each directory of FACTORIO_IMPORT_PATH in
                      order; the first existing one is returned (resolved); none -> FileNotFoundError
preprocess_imports    every `import "p";` line is replaced by the (recursively expanded) text of p, bracketed by two comment
                      lines, the FIRST time p is met; a file already included contributes one comment line; every other line of
                      every file is kept, once, in order, unchanged (blank lines, indentation and comment text included)
Path handling, the environment and file reading are outside the executor's subset; both contracts are evaluated on the REAL
functions over enumerated directory layouts / import graphs written to a scratch directory: bounded stand-ins."""
from __future__ import annotations

import itertools
import os
import shutil
import tempfile
from pathlib import Path

from pyvc import types as ty
from pyvc.contract import Contract

PP = "dsl_compiler/src/parsing/preprocessor.py::"
SCRATCH = []


def _scratch():
    d = tempfile.mkdtemp(prefix="verif_c17_")
    SCRATCH.append(d)
    return Path(d)


def cleanup():
    while SCRATCH:
        shutil.rmtree(SCRATCH.pop(), ignore_errors=True)


class _Env:
    """argument wrapper: sets FACTORIO_IMPORT_PATH around the call (the function reads it from the environment)"""


def _resolve_post(a, res):
    return True


def _resolve_wrapper(real):
    def call(*, import_path, base_path, env_dirs, expected):
        old = os.environ.get("FACTORIO_IMPORT_PATH")
        os.environ["FACTORIO_IMPORT_PATH"] = ";".join(str(d) for d in env_dirs)
        try:
            try:
                got = real(import_path, base_path)
            except FileNotFoundError:
                got = None
        finally:
            if old is None:
                os.environ.pop("FACTORIO_IMPORT_PATH", None)
            else:
                os.environ["FACTORIO_IMPORT_PATH"] = old
        return got
    return call


resolve_path = Contract(qualname=PP + "resolve_import_path", params={"import_path": ty.Str, "base_path": ty.TOpaque("dir"), "env_dirs": ty.TOpaque("dirs"), "expected": ty.TOpaque("p")},
                        ensures=[("the first existing candidate: next to the importing file, then the FACTORIO_IMPORT_PATH directories in order; none -> not found",
                                  lambda a, res: (res is None and a.expected is None) or (res is not None and a.expected is not None and Path(res) == Path(a.expected).resolve()))],
                        verify=False, properties=("C17",), note="evaluated on the real function over an enumerated box (bounded stand-in)")
resolve_path.wrap_real = _resolve_wrapper
CONTRACTS = [resolve_path]


def resolve_arg_sets():
    root = _scratch()
    out = []
    for i, present in enumerate(itertools.product((False, True), repeat=3)):
        dirs = [root / f"case{i}" / n for n in ("base", "env1", "env2")]
        for d, p in zip(dirs, present):
            (d / "lib").mkdir(parents=True, exist_ok=True)
            if p:
                (d / "lib" / "m.facto").write_text(f"# {d.name}\n")
        for with_base in (True, False):
            cands = (dirs if with_base else dirs[1:])
            flags = (present if with_base else present[1:])
            exp = next((d / "lib" / "m.facto" for d, p in zip(cands, flags) if p), None)
            out.append({"import_path": "lib/m.facto", "base_path": dirs[0] if with_base else None, "env_dirs": dirs[1:], "expected": exp})
    return out


# ---------------------------------------------------------------------------------------------------------------------
def _expand_spec(text, directory, files, done):
    """independent statement of the documented semantics over the scratch layout (files: {Path: text})"""
    out = []
    for line in text.split("\n"):
        s = line.strip()
        if s.startswith('import "') and s.endswith('";'):
            name = s[8:-2]
            if not name.endswith(".facto"):
                name += ".facto"
            target = (directory / name).resolve()
            if target in done:
                out.append(("skipped", target))
                continue
            done.add(target)
            out.append(("begin", target))
            out.extend(_expand_spec(files[target], target.parent, files, done))
            out.append(("end", target))
        else:
            out.append(("line", line))
    return out


def _classify(result_text):
    out = []
    for line in result_text.split("\n"):
        if line.startswith("# --- Imported from ") and line.endswith(" ---"):
            out.append(("begin", Path(line[len("# --- Imported from "):-4])))
        elif line.startswith("# --- End import ") and line.endswith(" ---"):
            out.append(("end", Path(line[len("# --- End import "):-4])))
        elif line.startswith("# Skipped circular import: "):
            out.append(("skipped", None))
        else:
            out.append(("line", line))
    return out


def _pre_post(a, res):
    want = _expand_spec(a.source_code, Path(a.base_path), a.files, {Path(a.base_path) / "main.facto"} if a.main_known else set())
    got = _classify(res)
    if len(got) != len(want):
        return False
    for g, w in zip(got, want):
        if g[0] != w[0]:
            return False
        if g[0] == "line" and g[1] != w[1]:
            return False
        if g[0] in ("begin", "end") and g[1] != w[1]:
            return False
    return True


def _pre_wrapper(real):
    def call(*, source_code, base_path, files, main_known):
        old = os.environ.get("FACTORIO_IMPORT_PATH")
        os.environ["FACTORIO_IMPORT_PATH"] = str(Path(base_path) / "nowhere")
        try:
            processed = {Path(base_path) / "main.facto"} if main_known else None
            return real(source_code, Path(base_path), processed)
        finally:
            if old is None:
                os.environ.pop("FACTORIO_IMPORT_PATH", None)
            else:
                os.environ["FACTORIO_IMPORT_PATH"] = old
    return call


preprocess = Contract(qualname=PP + "preprocess_imports", params={"source_code": ty.Str, "base_path": ty.TOpaque("dir"), "files": ty.TOpaque("files"), "main_known": ty.Bool},
                      ensures=[("each import line is replaced by the file's expanded text the first time, by one comment line afterwards; every other line kept once, in order, unchanged", _pre_post)],
                      verify=False, properties=("C17",), note="evaluated on the real function over an enumerated box (bounded stand-in)")
preprocess.wrap_real = _pre_wrapper
CONTRACTS.append(preprocess)

_BODY = {"fa": ["func fa(Signal v) { return v * 2; }", "", "    # indented comment of fa", "Signal from_a = 1;"], "fb": ["# fb starts", "func fb(Signal v) {", "    return v + 3;", "}"],
         "fc": ["Signal from_c = (\"signal-C\", 5);", "   "]}


def preprocess_arg_sets(tier="quick"):
    root = _scratch()
    out = []
    cand = [("fa", "fb"), ("fb", "fc"), ("fa", "fc"), ("fb", "fa"), ("fc", "fa"), ("fa", "fa"), ("fc", "main")]
    n = 0
    for r in range(0, 4):
        for edges in itertools.combinations(cand, r):
            for main_imports in (("fa",), ("fa", "fb"), ("fb", "fa", "fa"), ("fc", "fb")):
                n += 1
                d = root / f"g{n}"
                (d / "sub").mkdir(parents=True)
                where = {"fa": d, "fb": d / "sub", "fc": d, "main": d}

                def spelled(importer, importee):
                    a_, b_ = where[importer], where[importee]
                    return importee if a_ == b_ else (f"sub/{importee}" if b_ != d else f"../{importee}")
                files = {}
                for name in ("fa", "fb", "fc"):
                    lines = [f'import "{spelled(name, t)}.facto";' for (s, t) in edges if s == name] + _BODY[name]
                    p = (where[name] / f"{name}.facto").resolve()
                    p.write_text("\n".join(lines))
                    files[p] = "\n".join(lines)
                main = "\n".join([f'  import "{spelled("main", t)}";' if i % 2 else f'import "{spelled("main", t)}.facto";' for i, t in enumerate(main_imports)] + ["Signal x = 6;", "", "# end"])
                (d / "main.facto").write_text(main)
                files[(d / "main.facto").resolve()] = main
                out.append({"source_code": main, "base_path": d.resolve(), "files": files, "main_known": any(t == "main" for _, t in edges)})
    return out
