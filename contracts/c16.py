"""C16 contracts: a for loop equals its unrolling — the iteration value sequence and its plumbing."""
from __future__ import annotations

import z3

from pyvc import types as ty
from pyvc.contract import Contract, LoopSpec
from spec import ops
from spec.ops import And, Implies, Not, Or, forall_range, length, at

GIV = "dsl_compiler/src/ast/statements.py::ForStmt.get_iteration_values"

_BOUND = ty.TOpt(ty.TUnion((ty.Int, ty.Str)))
_SELF = ty.TObj("ForStmt")


def _resolved(a, v):
    """Value of a bound after resolution (spec side): ints are themselves, names go through the resolver."""
    if v is None:
        return 0
    if isinstance(v, str) or (ops.is_sym(v) and z3.is_string(v)):
        r = a.constant_resolver
        if hasattr(r, "val_fn"):
            return r.val_fn(v)
        return r(v)
    return v


def seq_spec(res, start, stop, s):
    """res is the arithmetic sequence start, start+s, ... strictly before stop in the direction of s."""
    n = length(res)
    asc = And(
        Implies(n > 0, at(res, 0) == start),
        forall_range(0, n - 1, lambda k: at(res, k + 1) == at(res, k) + s),
        forall_range(0, n, lambda k: at(res, k) < stop),
        Implies(n == 0, start >= stop),
        Implies(n > 0, at(res, n - 1) + s >= stop),
    )
    desc = And(
        Implies(n > 0, at(res, 0) == start),
        forall_range(0, n - 1, lambda k: at(res, k + 1) == at(res, k) + s),
        forall_range(0, n, lambda k: at(res, k) > stop),
        Implies(n == 0, start <= stop),
        Implies(n > 0, at(res, n - 1) + s <= stop),
    )
    return And(n >= 0, Implies(s > 0, asc), Implies(s < 0, desc), Implies(s == 0, n == 0))


def giv_post(a, res):
    me = a.self
    if me.values is not None:
        vals = me.values
        return And(length(res) == length(vals), forall_range(0, length(vals), lambda k: at(res, k) == at(vals, k)))
    start = _resolved(a, me.start)
    stop = _resolved(a, me.stop)
    if me.step is None:
        s = ops.ite(start < stop, 1, -1)
    else:
        s = _resolved(a, me.step)
    return seq_spec(res, start, stop, s)


def _inv(direction):
    def inv(L):
        res, i, start, stop, step = L.result, L.i, L.start, L.stop, L.step
        n = length(res)
        before = (lambda x: x < stop) if direction > 0 else (lambda x: x > stop)
        return And(
            n >= 0,
            (step > 0) if direction > 0 else (step < 0),
            Implies(n == 0, i == start),
            Implies(n > 0, And(at(res, 0) == start, i == at(res, n - 1) + step)),
            forall_range(0, n - 1, lambda k: at(res, k + 1) == at(res, k) + step),
            forall_range(0, n, lambda k: before(at(res, k))),
        )
    return inv


giv_contract = Contract(
    qualname=GIV,
    params={"self": _SELF, "constant_resolver": ty.TOpt(ty.TFun((ty.Str,), ty.Int, "resolver"))},
    requires=[],
    ensures=[("result is the iteration sequence", giv_post)],
    raises={"ValueError": lambda a: a.constant_resolver is None},
    loops={
        0: LoopSpec(inv=_inv(+1), variant=lambda L: L.stop - L.i, note="ascending range"),
        1: LoopSpec(inv=_inv(-1), variant=lambda L: L.i - L.stop, note="descending range"),
    },
    dynamic_types={"self": {"start": _BOUND, "stop": _BOUND, "step": _BOUND, "values": ty.TOpt(ty.TList(ty.Int))}},
    returns=ty.TList(ty.Int),
    properties=("C16",),
    min_obligations=12,
)

CONTRACTS = [giv_contract]

# =================================================================================================
# StatementLowerer.lower_for_stmt: the body is lowered once per iteration value, in order, with the
# iterator bound to that value, and names introduced by an iteration do not survive it.
# (Iteration list of length 3 and body of length 2: bounded list lengths, symbolic values.)
# =================================================================================================
from pyvc.values import Opaque as _Opaque  # noqa: E402

SL = "dsl_compiler/src/lowering/statement_lowerer.py::StatementLowerer."
TRACE = []


def _iter_values_effect(ex, a):
    vals = [z3.Int("v0"), z3.Int("v1"), z3.Int("v2")]
    TRACE.append(("values", vals))
    return list(vals)


def _lower_stmt_effect(ex, a):
    me = ex.args_ns.self
    refs = me.parent.signal_refs
    TRACE.append(("stmt", a.stmt, refs.get("i"), "leak" in refs))
    refs["leak"] = _Opaque("ref")  # the body declares a name
    me.parent.entity_refs["leaked_entity"] = "e"
    return None


iter_values = Contract(qualname="dsl_compiler/src/ast/statements.py::ForStmt.get_iteration_values", params={"self": ty.TOpaque("s"), "constant_resolver": ty.TOpaque("r")},
                       defaults={"constant_resolver": None}, effect=_iter_values_effect, verify=False, note="verified above (giv_contract): here a list of three symbolic values")
lower_stmt = Contract(qualname=SL + "lower_statement", params={"self": ty.TOpaque("s"), "stmt": ty.TOpaque("st")}, effect=_lower_stmt_effect, verify=False,
                      note="records (statement, iterator binding at the time of the call) and declares a body-local name")


def _for_post(a, res):
    vals = TRACE[0][1] if TRACE and TRACE[0][0] == "values" else None
    calls = [t for t in TRACE if t[0] == "stmt"]
    body = a.stmt.body
    if vals is None or len(calls) != len(vals) * len(body):
        return False
    cs = []
    k = 0
    for v in vals:
        for b in body:
            _, st, bound, leaked = calls[k]
            cs.append(st is b)
            cs.append(bound is v)
            # a name declared by an earlier iteration is gone when the next one starts
            cs.append(leaked is False if b is body[0] else True)
            k += 1
    refs = a.self.parent.signal_refs
    cs.append("leak" not in refs)
    cs.append("leaked_entity" not in a.self.parent.entity_refs)
    cs.append("outer" in refs)
    cs.append(refs.get("i") == 99)  # the outer variable the iterator shadowed is visible again, with ITS value
    return And(*cs)


for_stmt = Contract(
    qualname=SL + "lower_for_stmt",
    params={"self": ty.TObj("StatementLowerer", only=("StatementLowerer",)), "stmt": ty.TObj("ForStmt", only=("ForStmt",))},
    requires=[("(reset trace)", lambda a: TRACE.clear() or True)],
    ensures=[("body lowered once per value, in order, iterator bound to the value; iteration-local names do not survive", _for_post)],
    uses={"ForStmt.get_iteration_values": iter_values, "StatementLowerer.lower_statement": lower_stmt},
    dynamic_types={"self": {"parent": ty.TObj("ASTLowerer", only=("ASTLowerer",))},
                   "self.parent": {"signal_refs": ty.TConcrete({"outer": 7, "i": 99}), "entity_refs": ty.TConcrete({})},
                   "stmt": {"iterator_name": ty.TConcrete("i"), "body": ty.TConcrete([_Opaque("stmt-A"), _Opaque("stmt-B")])}},
    properties=("C16",), min_obligations=1, no_replay=True, note="bounded list lengths (3 values x 2 statements)",
)
CONTRACTS += [for_stmt, iter_values, lower_stmt]
