"""C16 contracts: a for loop equals its unrolling — the iteration value sequence and its plumbing."""
from __future__ import annotations

import z3

from pyvc import types as ty
from pyvc.contract import Contract, LoopSpec
from spec import ops
from spec.ops import And, Implies, Not, Or, forall_range, length, at

GIV = "dsl_compiler/src/ast/statements.py::ForStmt.get_iteration_values"

_BOUND = ty.TOpt(ty.TUnion((ty.Int, ty.Str)))
_SELF = ty.TObj("ForStmt")


def _resolved(a, v):
    """Value of a bound after resolution (spec side): ints are themselves, names go through the resolver."""
    if v is None:
        return 0
    if isinstance(v, str) or (ops.is_sym(v) and z3.is_string(v)):
        r = a.constant_resolver
        if hasattr(r, "val_fn"):
            return r.val_fn(v)
        return r(v)
    return v


def seq_spec(res, start, stop, s):
    """res is the arithmetic sequence start, start+s, ... strictly before stop in the direction of s."""
    n = length(res)
    asc = And(
        Implies(n > 0, at(res, 0) == start),
        forall_range(0, n - 1, lambda k: at(res, k + 1) == at(res, k) + s),
        forall_range(0, n, lambda k: at(res, k) < stop),
        Implies(n == 0, start >= stop),
        Implies(n > 0, at(res, n - 1) + s >= stop),
    )
    desc = And(
        Implies(n > 0, at(res, 0) == start),
        forall_range(0, n - 1, lambda k: at(res, k + 1) == at(res, k) + s),
        forall_range(0, n, lambda k: at(res, k) > stop),
        Implies(n == 0, start <= stop),
        Implies(n > 0, at(res, n - 1) + s <= stop),
    )
    return And(n >= 0, Implies(s > 0, asc), Implies(s < 0, desc), Implies(s == 0, n == 0))


def giv_post(a, res):
    me = a.self
    if me.values is not None:
        vals = me.values
        return And(length(res) == length(vals), forall_range(0, length(vals), lambda k: at(res, k) == at(vals, k)))
    start = _resolved(a, me.start)
    stop = _resolved(a, me.stop)
    if me.step is None:
        s = ops.ite(start < stop, 1, -1)
    else:
        s = _resolved(a, me.step)
    return seq_spec(res, start, stop, s)


def _inv(direction):
    def inv(L):
        res, i, start, stop, step = L.result, L.i, L.start, L.stop, L.step
        n = length(res)
        before = (lambda x: x < stop) if direction > 0 else (lambda x: x > stop)
        return And(
            n >= 0,
            (step > 0) if direction > 0 else (step < 0),
            Implies(n == 0, i == start),
            Implies(n > 0, And(at(res, 0) == start, i == at(res, n - 1) + step)),
            forall_range(0, n - 1, lambda k: at(res, k + 1) == at(res, k) + step),
            forall_range(0, n, lambda k: before(at(res, k))),
        )
    return inv


giv_contract = Contract(
    qualname=GIV,
    params={"self": _SELF, "constant_resolver": ty.TOpt(ty.TFun((ty.Str,), ty.Int, "resolver"))},
    requires=[],
    ensures=[("result is the iteration sequence", giv_post)],
    raises={"ValueError": lambda a: a.constant_resolver is None},
    loops={
        0: LoopSpec(inv=_inv(+1), variant=lambda L: L.stop - L.i, note="ascending range"),
        1: LoopSpec(inv=_inv(-1), variant=lambda L: L.i - L.stop, note="descending range"),
    },
    dynamic_types={"self": {"start": _BOUND, "stop": _BOUND, "step": _BOUND, "values": ty.TOpt(ty.TList(ty.Int))}},
    returns=ty.TList(ty.Int),
    properties=("C16",),
    min_obligations=12,
)

CONTRACTS = [giv_contract]
