"""Placer contracts (the middle of the chain IR node -> placement record -> emitted combinator).

EntityPlacer._place_constant / _place_arithmetic / _place_single_condition_decider: each IR node that is materialised
becomes exactly ONE placement of its own (keyed by the node's id), whose properties are the node's: operation, the two
operands as get_operand_for_combinator resolves them IN ORDER, the operand ids for the wire-colour lookup, the output
signal as resolve_signal_name gives it, and (constants) the node's value / signals.  The node is registered as the source
of its own id and as a sink of each operand.  A constant that is not materialised gets no placement at all.
The emitter's contracts (contracts.c07) turn exactly these records into the combinator's behaviour; the operand
resolution is contracted in contracts.c20b."""
from __future__ import annotations

import z3

from pyvc import types as ty
from pyvc.contract import Contract
from pyvc.ghost import ghost
from pyvc.values import SObj
from spec import ops
from spec.ops import And, Implies, Not, Or

EP = "dsl_compiler/src/layout/entity_placer.py::EntityPlacer."
_OPQ = ty.TOpaque("x")
PLACED, SOURCES, SINKS = [], [], []
_OPERAND_T = ty.TUnion((ty.Int, ty.Str))
_REF = ty.TUnion((ty.Int, ty.TObj("SignalRef", only=("SignalRef",))))


def _reset(a):
    PLACED.clear(), SOURCES.clear(), SINKS.clear()
    return True


def _create(ex, a):
    PLACED.append(dict(a.kwargs))
    return SObj(["EntityPlacement"], "placement", lazy=True)


def _set_source(ex, a):
    SOURCES.append(tuple(a.args))
    return None


def _add_sink(ex, a):
    SINKS.append((a.value_ref, a.consumer_id))
    return None


def _operand_of(ex, a):
    """get_operand_for_combinator by contract: an int stays; a reference resolves to its (ghost) operand"""
    v = a.args[0]
    if isinstance(v, SObj):
        return ghost(v, "operand", _OPERAND_T)
    return v


def _resolve_name(ex, a):
    return ghost(ex.args_ns.op, "resolved_name", ty.Str)


def _resolve_type(ex, a):
    return ghost(ex.args_ns.op, "resolved_type", ty.TOpt(ty.Str))


create = Contract(qualname="dsl_compiler/src/layout/layout_plan.py::LayoutPlan.create_and_add_placement", params={"kwargs": _OPQ}, effect=_create, verify=False,
                  note="records the placement under ir_node_id (dictionary insert; the recorded keywords are the placement's properties)")
set_source = Contract(qualname="dsl_compiler/src/layout/signal_graph.py::SignalGraph.set_source", params={"args": _OPQ}, effect=_set_source, verify=False, note="records the source")
add_sink = Contract(qualname=EP + "_add_signal_sink", params={"self": _OPQ, "value_ref": _OPQ, "consumer_id": _OPQ}, effect=_add_sink, verify=False,
                    note="registers the consumer as a sink of a reference operand (integers are ignored)")
operand_of = Contract(qualname="dsl_compiler/src/layout/signal_analyzer.py::SignalAnalyzer.get_operand_for_combinator", params={"args": _OPQ}, effect=_operand_of, verify=False,
                      note="verified separately (contracts.c20b): int stays, reference -> signal name or inlined literal")
resolve_name = Contract(qualname="dsl_compiler/src/layout/signal_analyzer.py::SignalAnalyzer.resolve_signal_name", params={"args": _OPQ}, effect=_resolve_name, verify=False,
                        note="the output signal allocated for this node (C13 contracts)")
resolve_type = Contract(qualname="dsl_compiler/src/layout/signal_analyzer.py::SignalAnalyzer.resolve_signal_type", params={"args": _OPQ}, effect=_resolve_type, verify=False,
                        note="category of the allocated signal")

_USAGE = ty.TObjMap(ty.Str, ty.TObj("SignalUsageEntry", only=("SignalUsageEntry",), ftypes=(("should_materialize", ty.Bool),)))
_SELF_T = {"self": {"plan": ty.TOpaque("plan"), "signal_graph": ty.TOpaque("graph"), "signal_analyzer": ty.TOpaque("analyzer"), "signal_usage": _USAGE}}
_USES = {"opaque.create_and_add_placement": create, "opaque.set_source": set_source, "EntityPlacer._add_signal_sink": add_sink,
         "opaque.get_operand_for_combinator": operand_of, "opaque.resolve_signal_name": resolve_name, "opaque.resolve_signal_type": resolve_type,
         "EntityPlacer._build_debug_info": "skip", "EntityPlacer._get_placement_position": "skip"}


def _is(x, y):
    """same value: identity for objects / symbolic terms, equality for concrete scalars"""
    if x is y:
        return True
    if isinstance(x, (int, str, bool)) and isinstance(y, (int, str, bool)) and type(x) is type(y):
        return x == y
    return False


def _own_source(op):
    return len(SOURCES) == 1 and len(SOURCES[0]) == 2 and SOURCES[0][0] is op.node_id and SOURCES[0][1] is op.node_id


# ---------------------------------------------------------------------------------------------------------------------
# _place_constant
# ---------------------------------------------------------------------------------------------------------------------
def _const_post(a, res):
    op = a.op
    lk = a.self.signal_usage.lookups
    usage = lk[-1][1] if lk else None
    has_signals = ops.truthy(op.signals) if hasattr(ops, "truthy") else None
    if not PLACED:
        # nothing placed: only allowed when the constant is not to be materialised and carries no signals
        if SOURCES:
            return False
        not_mat = True if usage is None else Not(usage.should_materialize)
        return And(not_mat, Not(_nonempty(op.signals)))
    if len(PLACED) != 1 or not _own_source(op):
        return False
    kw = PLACED[0]
    declared = op.debug_metadata["user_declared"]
    cs = [kw.get("ir_node_id") is op.node_id, kw.get("entity_type") == "constant-combinator", kw.get("position") is None,
          ops.eq(kw.get("is_input"), declared) if not isinstance(kw.get("is_input"), bool) else (Not(declared) if kw["is_input"] is False else declared)]
    if kw.get("role") == "bundle_const":
        cs += [kw.get("signals") is op.signals, _nonempty(op.signals)]
    else:
        cs += [kw.get("role") == "literal", kw.get("value") is op.value, kw.get("signal_name") is op._fields.get("@resolved_name"),
               kw.get("signal_type") is op._fields.get("@resolved_type"), Not(_nonempty(op.signals)),
               True if usage is None else usage.should_materialize]
        if usage is None:
            return False
    return And(*cs)


def _nonempty(d):
    k = z3.String("some_key")
    return z3.Exists([k], z3.Select(d.present, k))


_CONST_T = ty.TObj("IRConst", only=("IRConst",), ftypes=(("signals", ty.TDict(ty.Str, ty.Int)), ("value", ty.Int), ("node_id", ty.Str),
                                                         ("debug_metadata", ty.TRecord((("user_declared", ty.Bool),))), ("output_type", ty.Str)))
place_constant = Contract(
    qualname=EP + "_place_constant", params={"self": ty.TObj("EntityPlacer", only=("EntityPlacer",)), "op": _CONST_T},
    requires=[("(reset capture)", _reset)],
    ensures=[("a materialised constant gets exactly one combinator OF ITS OWN with its value / signals; an unmaterialised one gets none", _const_post)],
    uses=_USES, dynamic_types=_SELF_T, properties=("C01", "C02", "C07", "C12"), min_obligations=3, no_replay=True)


# ---------------------------------------------------------------------------------------------------------------------
# _place_arithmetic
# ---------------------------------------------------------------------------------------------------------------------
def _operand(v):
    return v._fields.get("@operand") if isinstance(v, SObj) else v


def _arith_post(a, res):
    op = a.op
    if len(PLACED) != 1 or not _own_source(op):
        return False
    kw = PLACED[0]
    cs = [kw.get("ir_node_id") is op.node_id, kw.get("entity_type") == "arithmetic-combinator", kw.get("role") == "arithmetic",
          kw.get("operation") is op.op, _is(kw.get("left_operand"), _operand(op.left)), _is(kw.get("right_operand"), _operand(op.right)),
          _is(kw.get("left_operand_signal_id"), op.left), _is(kw.get("right_operand_signal_id"), op.right),
          kw.get("output_signal") is op._fields.get("@resolved_name"), kw.get("needs_wire_separation") is op.needs_wire_separation,
          len(SINKS) == 2 and _is(SINKS[0][0], op.left) and _is(SINKS[1][0], op.right) and all(s[1] is op.node_id for s in SINKS)]
    return And(*[c if not isinstance(c, bool) else z3.BoolVal(c) for c in cs])


_ARITH_T = ty.TObj("IRArith", only=("IRArith",), ftypes=(("left", _REF), ("right", _REF), ("op", ty.Str), ("node_id", ty.Str), ("needs_wire_separation", ty.Bool),
                                                         ("output_type", ty.Str)))
place_arith = Contract(
    qualname=EP + "_place_arithmetic", params={"self": ty.TObj("EntityPlacer", only=("EntityPlacer",)), "op": _ARITH_T},
    requires=[("(reset capture)", _reset)],
    ensures=[("one arithmetic placement of its own: the node's operation, operands in order, operand ids, output signal and separation flag; source and sinks registered",
              _arith_post)],
    uses=_USES, dynamic_types=_SELF_T, properties=("C01", "C02", "C07"), min_obligations=2, no_replay=True)


# ---------------------------------------------------------------------------------------------------------------------
# _place_single_condition_decider
# ---------------------------------------------------------------------------------------------------------------------
def _decider_post(a, res):
    op = a.op
    if len(PLACED) != 1 or not _own_source(op):
        return False
    kw = PLACED[0]
    ov = op.output_value
    ov_operand = _operand(ov)
    inlined_const = isinstance(ov, SObj) and (isinstance(ov_operand, int) or (ops.is_sym(ov_operand) and z3.is_int(ov_operand)))
    # copy mode survives unless the copied value is a constant that never reaches a wire
    want_copy = False if inlined_const else op.copy_count_from_input
    got_copy = kw.get("copy_count_from_input")
    cs = [kw.get("ir_node_id") is op.node_id, kw.get("entity_type") == "decider-combinator", kw.get("role") == "decider",
          kw.get("operation") is op.test_op, _is(kw.get("left_operand"), _operand(op.left)), _is(kw.get("right_operand"), _operand(op.right)),
          _is(kw.get("left_operand_signal_id"), op.left), _is(kw.get("right_operand_signal_id"), op.right),
          kw.get("output_signal") is op._fields.get("@resolved_name"), _is(kw.get("output_value"), ov_operand),
          ops.eq(got_copy, want_copy) if (ops.is_sym(got_copy) or ops.is_sym(want_copy)) else got_copy is want_copy]
    sid = kw.get("output_value_signal_id")
    if isinstance(got_copy, bool):
        cs.append(_is(sid, ov) if got_copy else sid is None)
    else:
        cs.append(sid is None or _is(sid, ov))
    nsink = 3 if isinstance(ov, SObj) else 2
    cs.append(len(SINKS) == nsink and _is(SINKS[0][0], op.left) and _is(SINKS[1][0], op.right) and (nsink == 2 or SINKS[2][0] is ov)
              and all(s[1] is op.node_id for s in SINKS))
    return And(*[c if not isinstance(c, bool) else z3.BoolVal(c) for c in cs])


_DEC_T = ty.TObj("IRDecider", only=("IRDecider",), ftypes=(("left", _REF), ("right", _REF), ("output_value", _REF), ("test_op", ty.Str), ("node_id", ty.Str),
                                                           ("copy_count_from_input", ty.Bool), ("debug_metadata", ty.TRecord((("needs_wire_separation", ty.Bool),))),
                                                           ("output_type", ty.Str)))
place_decider = Contract(
    qualname=EP + "_place_single_condition_decider", params={"self": ty.TObj("EntityPlacer", only=("EntityPlacer",)), "op": _DEC_T},
    requires=[("(reset capture)", _reset)],
    ensures=[("one decider placement of its own: the node's comparison, operands in order, output signal and value; copy mode kept unless the copied value is an inlined constant",
              _decider_post)],
    uses=_USES, dynamic_types=_SELF_T, properties=("C01", "C02", "C07"), min_obligations=2, no_replay=True)

CONTRACTS = [place_constant, place_arith, place_decider, create, set_source, add_sink, operand_of, resolve_name, resolve_type]


# ---------------------------------------------------------------------------------------------------------------------
# _place_multi_condition_decider: every row of the node becomes one row of the placement, IN ORDER, with the row's
# comparator and connective; each side is the row's operand — an IR operand resolved like any combinator operand (an
# integer, or a reference inlined as an integer, is the row's constant; any other reference is its signal, with the
# reference kept for the wire-colour lookup and registered as a sink), a layout-time signal name with its wire filter, or
# a constant.  Rows: two, each side in one of the four shapes (16 x 16 shape pairs, values unrestricted): bounded in the
# number of rows.
# ---------------------------------------------------------------------------------------------------------------------
_NONE = ty.TConcrete(None)
_SIDES = {
    "ref": lambda s: ((f"{s}_operand", ty.TObj("SignalRef", only=("SignalRef",))), (f"{s}_signal", ty.TConcrete("")), (f"{s}_constant", _NONE), (f"{s}_signal_wires", _NONE)),
    "int": lambda s: ((f"{s}_operand", ty.Int), (f"{s}_signal", ty.TConcrete("")), (f"{s}_constant", _NONE), (f"{s}_signal_wires", _NONE)),
    "name": lambda s: ((f"{s}_operand", _NONE), (f"{s}_signal", ty.Str), (f"{s}_constant", _NONE), (f"{s}_signal_wires", ty.TOpt(ty.TSet(ty.Str)))),
    "const": lambda s: ((f"{s}_operand", _NONE), (f"{s}_signal", ty.TConcrete("")), (f"{s}_constant", ty.Int), (f"{s}_signal_wires", _NONE)),
}


def _cond_t(first, second):
    return ty.TObj("DeciderCondition", only=("DeciderCondition",), ftypes=_SIDES[first]("first") + _SIDES[second]("second") + (("comparator", ty.Str), ("compare_type", ty.Str)))


def _names_nonempty(a):
    cs = []
    for c in a.op.conditions:
        for s in ("first", "second"):
            v = getattr(c, s + "_signal")
            if ops.is_sym(v):
                cs.append(z3.Length(v) > 0)
            w = getattr(c, s + "_signal_wires")
            if w is not None:   # call sites (memory_builder) give {"red"} or {"green"}; an empty filter is not a filter
                k = z3.String("some_colour_" + s)
                cs.append(z3.Exists([k], z3.Select(w.member, k)))
    return And(*cs) if cs else True


def _side_ok(row, cond, s, expected_sinks):
    """the row's side `s` is the condition's operand"""
    operand = getattr(cond, s + "_operand")
    sig, const, sid, wires = row.get(s + "_signal"), row.get(s + "_constant"), row.get(s + "_signal_id"), row.get(s + "_signal_wires")
    if operand is not None:
        if not isinstance(operand, SObj):       # integer operand
            return sig is None and sid is None and wires is None and _is(const, operand)
        expected_sinks.append(operand)
        resolved = _operand(operand)
        if ops.is_sym(resolved) and z3.is_int(resolved):   # reference inlined as an integer
            return sig is None and sid is None and const is resolved
        return const is None and sig is resolved and sid is operand and wires is None
    name = getattr(cond, s + "_signal")
    if ops.is_sym(name):
        w = getattr(cond, s + "_signal_wires")
        return const is None and sid is None and sig is name and (wires is w if w is not None else wires is None)
    return sig is None and sid is None and wires is None and const is getattr(cond, s + "_constant")


def _multi_post(a, res):
    op = a.op
    if len(PLACED) != 1 or not _own_source(op):
        return False
    kw = PLACED[0]
    rows = kw.get("conditions")
    if not isinstance(rows, list) or len(rows) != len(op.conditions):
        return False
    expected_sinks = []
    ok = [kw.get("ir_node_id") is op.node_id, kw.get("entity_type") == "decider-combinator", kw.get("role") == "decider",
          kw.get("output_signal") is op._fields.get("@resolved_name")]
    for row, cond in zip(rows, op.conditions):
        ok += [row.get("comparator") is cond.comparator, row.get("compare_type") is cond.compare_type,
               _side_ok(row, cond, "first", expected_sinks), _side_ok(row, cond, "second", expected_sinks)]
    ov = op.output_value
    ov_operand = _operand(ov)
    inlined_const = isinstance(ov, SObj) and ops.is_sym(ov_operand) and z3.is_int(ov_operand)
    want_copy = False if inlined_const else op.copy_count_from_input
    got_copy = kw.get("copy_count_from_input")
    ok += [_is(kw.get("output_value"), ov_operand), ops.eq(got_copy, want_copy) if (ops.is_sym(got_copy) or ops.is_sym(want_copy)) else got_copy is want_copy]
    sid = kw.get("output_value_signal_id")
    ok.append((_is(sid, ov) if got_copy else sid is None) if isinstance(got_copy, bool) else (sid is None or _is(sid, ov)))
    if isinstance(ov, SObj):
        expected_sinks.append(ov)
    ok.append(len(SINKS) == len(expected_sinks) and all(s[0] is e and s[1] is op.node_id for s, e in zip(SINKS, expected_sinks)))
    return And(*[c if not isinstance(c, bool) else z3.BoolVal(c) for c in ok])


for _f1 in _SIDES:
    for _s1 in _SIDES:
        for _f2, _s2 in (("ref", "int"), ("name", "const"), ("int", "ref"), ("const", "name")):
            _t = ty.TObj("IRDecider", only=("IRDecider",), ftypes=(
                ("conditions", ty.TTuple((_cond_t(_f1, _s1), _cond_t(_f2, _s2)))), ("output_value", _REF), ("node_id", ty.Str), ("copy_count_from_input", ty.Bool),
                ("output_type", ty.Str)))
            CONTRACTS.append(Contract(
                qualname=EP + "_place_multi_condition_decider", params={"self": ty.TObj("EntityPlacer", only=("EntityPlacer",)), "op": _t},
                requires=[("(reset capture)", _reset), ("layout-time signal names and wire filters are non-empty", _names_nonempty)],
                ensures=[("one decider placement of its own whose rows are the node's rows in order: comparator, connective and both sides", _multi_post)],
                uses=_USES, dynamic_types=_SELF_T, properties=("C01", "C05", "C07"), min_obligations=1, no_replay=True,
                note=f"rows ({_f1} CMP {_s1}), ({_f2} CMP {_s2})"))


# ---------------------------------------------------------------------------------------------------------------------
# _add_signal_sink: a consumer becomes a reader of a signal reference unless that reference's producer is not materialised
# (an inlined constant has no combinator to wire from); of a bundle reference always; of an integer never.
# _place_entity_output / _place_entity_prop_read: the node reading an entity's output is sourced by THAT entity.
# ---------------------------------------------------------------------------------------------------------------------
GSINK, GSRC = [], []


def _g_reset(a):
    GSINK.clear(), GSRC.clear()
    return True


g_add_sink = Contract(qualname="dsl_compiler/src/layout/signal_graph.py::SignalGraph.add_sink", params={"args": _OPQ}, effect=lambda ex, a: GSINK.append(tuple(a.args)), verify=False,
                      note="records the reader")
g_set_source = Contract(qualname="dsl_compiler/src/layout/signal_graph.py::SignalGraph.set_source", params={"args": _OPQ}, effect=lambda ex, a: GSRC.append(tuple(a.args)), verify=False,
                        note="records the source")


def _sink_post(a, res):
    v = a.value_ref
    if not isinstance(v, SObj):
        return not GSINK
    added = len(GSINK) == 1 and GSINK[0][0] is v.source_id and GSINK[0][1] is a.consumer_id
    if "BundleRef" in v._cls_set:
        return added
    lk = a.self.signal_usage.lookups
    usage = lk[-1][1] if lk else None
    if usage is None:
        return added
    return And(usage.should_materialize, added) if GSINK else Not(usage.should_materialize)


CONTRACTS.append(Contract(
    qualname=EP + "_add_signal_sink",
    params={"self": ty.TObj("EntityPlacer", only=("EntityPlacer",)), "value_ref": ty.TUnion((ty.Int, ty.TObj("SignalRef", only=("SignalRef",)), ty.TObj("BundleRef", only=("BundleRef",)))),
            "consumer_id": ty.Str},
    requires=[("(reset capture)", _g_reset)],
    ensures=[("reader of a materialised signal reference or of any bundle reference; never of an integer or of an unmaterialised (inlined) producer", _sink_post)],
    uses={"opaque.add_sink": g_add_sink}, dynamic_types={"self": {"signal_graph": ty.TOpaque("graph"), "signal_usage": _USAGE}},
    properties=("C01", "C02", "C07"), min_obligations=3, no_replay=True))

for _fn, _cls in (("_place_entity_output", "IREntityOutput"), ("_place_entity_prop_read", "IREntityPropRead")):
    CONTRACTS.append(Contract(
        qualname=EP + _fn, params={"self": ty.TObj("EntityPlacer", only=("EntityPlacer",)),
                                   "op": ty.TObj(_cls, only=(_cls,), ftypes=(("node_id", ty.Str), ("entity_id", ty.Str), ("property_name", ty.Str)))},
        requires=[("(reset capture)", _g_reset)],
        ensures=[("the reading node is sourced by the entity it reads", lambda a, res: len(GSRC) == 1 and GSRC[0][0] is a.op.node_id and GSRC[0][1] is a.op.entity_id and not GSINK)],
        uses={"opaque.set_source": g_set_source}, dynamic_types={"self": {"signal_graph": ty.TOpaque("graph"), "_entity_property_signals": ty.TDict(ty.Str, ty.Str)}},
        properties=("C06", "C02"), min_obligations=1, no_replay=True))
CONTRACTS += [g_add_sink, g_set_source]


# ---------------------------------------------------------------------------------------------------------------------
# _place_wire_merge and cleanup_unused_entities, evaluated on the REAL methods with real plan / graph objects over enumerated
# boxes (bounded stand-ins):
#   _place_wire_merge        the junction lists the merge's sources in order; every source's PHYSICAL producer (the entity the
#                            signal graph resolves its node to) is recorded as a member of this merge; the merge is its own source
#                            and a reader of every materialised source
#   cleanup_unused_entities  exactly the deciders whose comparison was inlined into an entity disappear — placement, wires that
#                            touch them, graph edges from or to them — and nothing else
# ---------------------------------------------------------------------------------------------------------------------
WMQ = "dsl_compiler/src/layout/entity_placer.py::EntityPlacer._place_wire_merge"
CEQ = "dsl_compiler/src/layout/entity_placer.py::EntityPlacer.cleanup_unused_entities"


def _wm_post(a, res):
    me, op = a.self, a.op
    sc = me._scenario
    j = me._wire_merge_junctions.get(op.node_id)
    ok = [j is not None and j["output_id"] == op.node_id and len(j["inputs"]) == len(op.sources) and all(x is y for x, y in zip(j["inputs"], op.sources))]
    for src, phys in zip(op.sources, sc["physical"]):
        ok.append(op.node_id in me._merge_membership.get(phys, set()))
    ok.append(set(me._merge_membership) == set(sc["physical"]) | set(sc["prior_members"]))
    ok.append(me.signal_graph.get_source(op.node_id) == op.node_id)
    for src, mat in zip(op.sources, sc["materialised"]):
        ok.append((op.node_id in me.signal_graph.iter_sinks(src.source_id)) == mat)
    return all(ok)


place_wire_merge = Contract(qualname=WMQ, params={"self": ty.TOpaque("placer"), "op": ty.TOpaque("merge")},
                            ensures=[("junction = the sources in order; membership keyed by the physical producer; own source; reader of every materialised source", _wm_post)],
                            verify=False, properties=("C02", "C12"), note="evaluated on the real method over an enumerated box (bounded stand-in)")


def wire_merge_arg_sets():
    import itertools
    from dsl_compiler.src.ir.nodes import IRWireMerge, SignalRef, BundleRef
    from dsl_compiler.src.layout.entity_placer import EntityPlacer
    from dsl_compiler.src.layout.signal_graph import SignalGraph

    class _Usage:
        def __init__(self, m):
            self.should_materialize = m

    out = []
    # each source: (kind, resolved by the graph to another entity?, materialised?)
    kinds = [("sig", False, True), ("sig", True, True), ("sig", False, False), ("bundle", True, True), ("bundle", False, True)]
    for n in (2, 3):
        for combo in itertools.product(kinds, repeat=n):
            for prior in (False, True):
                g = SignalGraph()
                ep = object.__new__(EntityPlacer)
                ep.signal_graph, ep._wire_merge_junctions, ep._merge_membership, ep.signal_usage = g, {}, {}, {}
                op = IRWireMerge("merge_1", "signal-A")
                physical, mats = [], []
                for i, (kind, resolved, mat) in enumerate(combo):
                    nid = f"node_{i}"
                    ref = SignalRef("signal-A", nid) if kind == "sig" else BundleRef({"signal-A"}, nid)
                    op.add_source(ref)
                    if resolved:
                        g.set_source(nid, f"entity_{i}")
                    physical.append(f"entity_{i}" if resolved else nid)
                    if kind == "sig":
                        ep.signal_usage[nid] = _Usage(mat)
                    mats.append(mat if kind == "sig" else True)
                prior_members = []
                if prior:
                    ep._merge_membership[physical[0]] = {"merge_0"}
                    ep._merge_membership["unrelated"] = {"merge_0"}
                    prior_members = [physical[0], "unrelated"]
                ep._scenario = {"physical": physical, "materialised": mats, "prior_members": prior_members}
                out.append({"self": ep, "op": op})
    return out


def _ce_post(a, res):
    me = a.self
    sc = me._scenario
    removed = set(sc["removed"])
    plan = me.plan
    ok = [set(plan.entity_placements) == set(sc["all"]) - removed]
    ok.append({(w.source_entity_id, w.sink_entity_id) for w in plan.wire_connections} == {(s, t) for (s, t) in sc["wires"] if s not in removed and t not in removed})
    edges = {(sig, s, t) for sig, s, t in me.signal_graph.iter_source_sink_pairs()}
    ok.append(edges == {(sig, s, t) for (sig, s, t) in sc["edges"] if s not in removed and t not in removed})
    return all(ok)


cleanup_entities = Contract(qualname=CEQ, params={"self": ty.TOpaque("placer")},
                            ensures=[("exactly the inlined comparison deciders, their wires and their graph edges are removed", _ce_post)],
                            verify=False, properties=("C06",), note="evaluated on the real method over an enumerated box (bounded stand-in)")
CONTRACTS += [place_wire_merge, cleanup_entities]


def cleanup_entities_arg_sets():
    import itertools
    from dsl_compiler.src.layout.entity_placer import EntityPlacer
    from dsl_compiler.src.layout.layout_plan import LayoutPlan, WireConnection
    from dsl_compiler.src.layout.signal_graph import SignalGraph

    class _Diag:
        def info(self, *a, **k):
            pass
        warning = error = info

    class _NoMemory:
        _modules = {}

        def cleanup_unused_gates(self, plan, graph):
            pass

    out = []
    # two lamps; each is driven by: an inlined comparison (its decider goes), a plain signal, or nothing
    for drive in itertools.product(("inlined", "signal", "none"), repeat=2):
        plan, g = LayoutPlan(), SignalGraph()
        ids, removed, wires, edges = [], [], [], []
        plan.create_and_add_placement(ir_node_id="input", entity_type="constant-combinator", position=None, footprint=(1, 2), role="literal", debug_info={})
        ids.append("input")
        for i, d in enumerate(drive):
            lamp, dec = f"lamp_{i}", f"cmp_{i}"
            plan.create_and_add_placement(ir_node_id=dec, entity_type="decider-combinator", position=None, footprint=(1, 2), role="decider", debug_info={})
            props = {}
            if d == "inlined":
                props = {"enable": {"type": "inline_comparison", "comparison_data": {"left_signal": "signal-A", "comparator": ">", "right_constant": 5, "source_node_id_to_remove": dec}}}
                removed.append(dec)
            elif d == "signal":
                props = {"enable": {"type": "signal", "signal_ref": None}}
            plan.create_and_add_placement(ir_node_id=lamp, entity_type="small-lamp", position=None, footprint=(1, 1), role="user_entity", debug_info={}, property_writes=props)
            ids += [dec, lamp]
            for s, t in (("input", dec), (dec, lamp), ("input", lamp)):
                plan.add_wire_connection(WireConnection(source_entity_id=s, sink_entity_id=t, signal_name="signal-A", wire_color="red"))
                wires.append((s, t))
            g.set_source("input", "input")
            g.add_sink("input", dec)
            g.add_sink("input", lamp)
            g.set_source(dec, dec)
            g.add_sink(dec, lamp)
            edges += [("input", "input", dec), ("input", "input", lamp), (dec, dec, lamp)]
        ep = object.__new__(EntityPlacer)
        ep.plan, ep.signal_graph, ep.diagnostics, ep.memory_builder = plan, g, _Diag(), _NoMemory()
        ep._scenario = {"all": ids, "removed": removed, "wires": wires, "edges": edges}
        out.append({"self": ep})
    return out
