"""Small lowering functions between the dispatcher and the IR builder (C01 C02 C06 C09 C13 C15).

  _lower_arithmetic_op       `+` first asks the wire-merge rewriting (contracts.c01b) and returns ITS result when there is one; every other case is ONE
                             arithmetic node with this operator, these operands in this order, on the requested type
  _lower_logical_op          && goes to the and-lowering, || to the or-lowering, with these operands in this order (contracts.c01)
  _lower_bundle_op           `bundle OP x`: ONE each-arithmetic node over the lowered bundle and the lowered right operand, `**` spelled `^`; a left operand that is
                             not a bundle is an ERROR
  lower_entity_output        `e.output`: ONE entity-output node for the entity the NAME denotes; the result is a dynamic bundle (no members) on that node; an
                             unknown entity is an ERROR
  lower_property_access      `e.prop` read: ONE property-read node of that entity and property on a fresh type; an unknown entity is an ERROR (and a constant 0)
  lower_dict_literal         `{k: v}` of a place() call: number and string literals by their value, other expressions by what they lower to when that is an
                             integer or a string — anything else is an ERROR and the key is left out; every key once, with its own value
  _resolve_signal_type       a written name as it is; `x.type` is the type of the value x is BOUND TO (parameter first, then variable), else what the analyser says
  _get_actual_type_from_ref  inside a function the operand's type is the one its value carries, unless that is a wildcard or equals the analyser's
  _is_simple_operand         literals, names and any()/all() may sit in a folded condition row; nothing else"""
from __future__ import annotations

import z3

from pyvc import types as ty
from pyvc.contract import Contract
from pyvc.ghost import ghost, isa
from pyvc.values import SObj, fresh_name
from spec import ops
from spec.ops import And, Implies, Not, Or

EL = "dsl_compiler/src/lowering/expression_lowerer.py::ExpressionLowerer."
IRB = "dsl_compiler/src/ir/builder.py::IRBuilder."
_OPQ = ty.TOpaque("x")
_SELF = ty.TObj("ExpressionLowerer", only=("ExpressionLowerer",))
_SRC = ty.TObj("SignalRef", only=("SignalRef",), ftypes=(("signal_type", ty.Str), ("source_id", ty.Str)))
_BUN = ty.TObj("BundleRef", only=("BundleRef",), ftypes=(("source_id", ty.Str),))
_REF = ty.TUnion((ty.Int, _SRC))
REC = {}


def _reset(a):
    REC.clear()
    return True


def _rec(kind, ret=None):
    def eff(ex, a):
        REC.setdefault(kind, []).append(a)
        return ret(ex, a) if ret else None
    return eff


def _b(x):
    return z3.BoolVal(x) if isinstance(x, bool) else x


def _new_ref(prefix):
    return lambda ex, a: SObj(["SignalRef"], fresh_name(prefix), lazy=True)


_DYN = {"self": {"parent": ty.TObj("ASTLowerer", only=("ASTLowerer",))},
        "self.parent": {"ir_builder": ty.TObj("IRBuilder", only=("IRBuilder",)), "diagnostics": ty.TOpaque("diag"), "entity_refs": ty.TDict(ty.Str, ty.Str),
                        "semantic": ty.TObj("SemanticAnalyzer", only=("SemanticAnalyzer",)), "param_values": ty.TObjMap(ty.Str, _SRC), "signal_refs": ty.TObjMap(ty.Str, _SRC)}}
error_c = Contract(qualname=EL + "_error", params={"self": _OPQ, "message": _OPQ, "node": _OPQ}, defaults={"node": None}, effect=_rec("error"), verify=False, note="records a compile error")
ensure_reg = Contract(qualname="dsl_compiler/src/lowering/lowerer.py::ASTLowerer.ensure_signal_registered", params={"self": _OPQ, "signal_key": _OPQ, "signal_type": _OPQ}, defaults={"signal_type": None},
                      effect=_rec("registered"), verify=False, note="registers the name with the signal registry")
_BASE = {"ExpressionLowerer._error": error_c, "ASTLowerer.ensure_signal_registered": ensure_reg, "ExpressionLowerer._attach_expr_context": "skip", "ExpressionLowerer.ir_builder": "inline",
         "ExpressionLowerer.semantic": "inline", "ExpressionLowerer.diagnostics": "inline",
         "IRBuilder.allocate_implicit_type": Contract(qualname=IRB + "allocate_implicit_type", params={"self": _OPQ}, effect=lambda ex, a: z3.String("fresh_implicit_type"), verify=False,
                                                      note="fresh implicit type name")}
CONTRACTS = [error_c, ensure_reg]

# ---------------------------------------------------------------------------------------------------------------------
merge_c = Contract(qualname=EL + "_attempt_wire_merge", params={"self": _OPQ, "expr": _OPQ, "left_ref": _OPQ, "right_ref": _OPQ, "result_type": _OPQ},
                   effect=_rec("merge", lambda ex, a: ghost(ex.args_ns.expr, "merged", ty.TOpt(_SRC))), verify=False, note="proved in contracts.c01b: None, or a reference denoting left + right")
arith_c = Contract(qualname=IRB + "arithmetic", params={"self": _OPQ, "op": _OPQ, "left": _OPQ, "right": _OPQ, "output_type": _OPQ, "source_ast": _OPQ}, defaults={"source_ast": None},
                   effect=_rec("arith", _new_ref("arith_ref")), verify=False, note="proved in contracts.c02: one arithmetic node with exactly these operands")


def _arith_post(a, res):
    merged = a.expr._fields.get("@merged")
    ar = REC.get("arith", [])
    if merged is not None:
        return And(a.expr.op == "+", _b(res is merged and not ar and len(REC["merge"]) == 1 and REC["merge"][0].left_ref is a.left_ref and REC["merge"][0].right_ref is a.right_ref))
    if len(ar) != 1:
        return False
    c = ar[0]
    asked = len(REC.get("merge", [])) == 1
    return And(_b(c.op is a.expr.op and c.left is a.left_ref and c.right is a.right_ref and c.output_type is a.output_type and c.source_ast is a.expr),
               (a.expr.op == "+") if asked else Not(a.expr.op == "+"))


CONTRACTS.append(Contract(
    qualname=EL + "_lower_arithmetic_op",
    params={"self": _SELF, "expr": ty.TObj("BinaryOp", only=("BinaryOp",), ftypes=(("op", ty.Str),)), "left_ref": _REF, "right_ref": _REF, "output_type": ty.Str, "result_type": _OPQ,
            "left_signal_type": ty.TOpt(ty.Str)},
    requires=[("(reset capture)", _reset)],
    ensures=[("`+`: the wire-merge rewriting is asked, its result returned when there is one; otherwise ONE arithmetic node: this operator, these operands in this order, this type", _arith_post)],
    uses={**_BASE, "ExpressionLowerer._attempt_wire_merge": merge_c, "IRBuilder.arithmetic": arith_c}, dynamic_types=_DYN, properties=("C01",), min_obligations=3, no_replay=True))
CONTRACTS += [merge_c, arith_c]

# ---------------------------------------------------------------------------------------------------------------------
_land = Contract(qualname=EL + "_lower_logical_and", params={"self": _OPQ, "expr": _OPQ, "left_ref": _OPQ, "right_ref": _OPQ, "output_type": _OPQ}, effect=_rec("and", _new_ref("and_ref")), verify=False,
                 note="proved in contracts.c01")
_lor = Contract(qualname=EL + "_lower_logical_or", params={"self": _OPQ, "expr": _OPQ, "left_ref": _OPQ, "right_ref": _OPQ, "output_type": _OPQ}, effect=_rec("or", _new_ref("or_ref")), verify=False,
                note="proved in contracts.c01")


def _logical_post(a, res):
    ands, ors = REC.get("and", []), REC.get("or", [])
    if len(ands) + len(ors) != 1:
        return False
    c = (ands or ors)[0]
    same = c.expr is a.expr and c.left_ref is a.left_ref and c.right_ref is a.right_ref and c.output_type is a.output_type
    return And(_b(same), (a.expr.op == "&&") if ands else Not(a.expr.op == "&&"))


CONTRACTS.append(Contract(
    qualname=EL + "_lower_logical_op",
    params={"self": _SELF, "expr": ty.TObj("BinaryOp", only=("BinaryOp",), ftypes=(("op", ty.Str),)), "left_ref": _REF, "right_ref": _REF, "output_type": ty.Str, "left_signal_type": ty.TOpt(ty.Str)},
    requires=[("(reset capture)", _reset), ("the operator is && or || (lower_binary_op's dispatch, contracts.c01)", lambda a: Or(a.expr.op == "&&", a.expr.op == "||"))],
    ensures=[("&& -> the and-lowering, || -> the or-lowering, same operands in the same order on the same type", _logical_post)],
    uses={**_BASE, "ExpressionLowerer._lower_logical_and": _land, "ExpressionLowerer._lower_logical_or": _lor}, dynamic_types=_DYN, properties=("C01",), min_obligations=2, no_replay=True))
CONTRACTS += [_land, _lor]

# ---------------------------------------------------------------------------------------------------------------------
_lower_any = Contract(qualname=EL + "lower_expr", params={"self": _OPQ, "expr": _OPQ},
                      effect=_rec("lowered", lambda ex, a: ghost(a.expr, "lowered", ty.TUnion((ty.Int, _SRC, _BUN, ty.TConcrete("a string"))))), verify=False,
                      note="the lowered value of a sub-expression (contracts.cdispatch)")
_bundle_arith = Contract(qualname=IRB + "bundle_arithmetic", params={"self": _OPQ, "op": _OPQ, "bundle": _OPQ, "operand": _OPQ, "source_ast": _OPQ}, defaults={"source_ast": None},
                         effect=_rec("bundle_arith", lambda ex, a: SObj(["BundleRef"], fresh_name("each_ref"), lazy=True)), verify=False, note="proved in contracts.c02: one each-arithmetic node")


def _bundle_op_post(a, res):
    e = a.expr
    left = e.left._fields.get("@lowered")
    if not (isinstance(left, SObj) and "BundleRef" in left._cls_set):
        return _b(len(REC.get("error", [])) == 1 and not REC.get("bundle_arith") and isa(res, "BundleRef") is True)
    right = e.right._fields.get("@lowered")
    calls = REC.get("bundle_arith", [])
    if len(calls) != 1 or "@lowered" not in e.right._fields:
        return False
    c = calls[0]
    want_op = ops.ite(e.op == "**", z3.StringVal("^"), e.op)
    return And(_b(c.bundle is left and c.operand is right and res is not None and not REC.get("error")), ops.eq(c.op, want_op))


CONTRACTS.append(Contract(
    qualname=EL + "_lower_bundle_op",
    params={"self": _SELF, "expr": ty.TObj("BinaryOp", only=("BinaryOp",), ftypes=(("op", ty.Str), ("left", ty.TObj("Expr", only=("IdentifierExpr",))), ("right", ty.TObj("Expr", only=("IdentifierExpr",))))),
            "bundle_type": _OPQ},
    requires=[("(reset capture)", _reset)],
    ensures=[("ONE each-arithmetic node over the lowered bundle and the lowered right operand, ** spelled ^; a non-bundle left operand is an ERROR", _bundle_op_post)],
    uses={**_BASE, "ExpressionLowerer.lower_expr": _lower_any, "IRBuilder.bundle_arithmetic": _bundle_arith}, dynamic_types=_DYN, properties=("C02",), min_obligations=2, no_replay=True))
CONTRACTS += [_lower_any, _bundle_arith]

# ---------------------------------------------------------------------------------------------------------------------
_add_op = Contract(qualname=IRB + "add_operation", params={"self": _OPQ, "op": _OPQ}, effect=_rec("added"), verify=False, note="appends the node to the IR (recorded)")
_next_id = Contract(qualname=IRB + "next_id", params={"self": _OPQ}, effect=lambda ex, a: z3.Int(fresh_name("next_id")), verify=False, note="a fresh number")
_const0 = Contract(qualname=IRB + "const", params={"self": _OPQ, "signal_type": _OPQ, "value": _OPQ, "source_ast": _OPQ}, defaults={"source_ast": None}, effect=_rec("const", _new_ref("zero_ref")), verify=False,
                   note="proved in contracts.c02")


def _entout_post(a, res):
    refs = a.self.parent.entity_refs
    name = a.expr.entity_name
    known = z3.Select(refs.present, name)
    added = REC.get("added", [])
    if not added:
        return And(Not(known), _b(len(REC.get("error", [])) == 1 and isa(res, "BundleRef") is True and not res.signal_types))
    node = added[0].op
    return And(known, _b(len(added) == 1 and isa(node, "IREntityOutput") is True and not REC.get("error") and isa(res, "BundleRef") is True and not res.signal_types and res.source_id is node.node_id),
               node.entity_id == z3.Select(refs.vals, name))


CONTRACTS.append(Contract(
    qualname=EL + "lower_entity_output", params={"self": _SELF, "expr": ty.TObj("EntityOutputExpr", only=("EntityOutputExpr",), ftypes=(("entity_name", ty.Str),))},
    requires=[("(reset capture)", _reset)],
    ensures=[("ONE entity-output node for the entity the name denotes; the result is a dynamic bundle on that node; an unknown entity is an ERROR", _entout_post)],
    uses={**_BASE, "IRBuilder.add_operation": _add_op, "IRBuilder.next_id": _next_id}, dynamic_types=_DYN, properties=("C06", "C02"), min_obligations=2, no_replay=True))


def _propread_post(a, res):
    refs = a.self.parent.entity_refs
    name = a.expr.object_name
    known = z3.Select(refs.present, name)
    added = REC.get("added", [])
    if not added:
        return And(Not(known), _b(len(REC.get("error", [])) == 1 and len(REC.get("const", [])) == 1 and ops.eq(REC["const"][0].value, 0) is not False))
    node = added[0].op
    return And(known, _b(len(added) == 1 and isa(node, "IREntityPropRead") is True and node.property_name is a.expr.property_name and not REC.get("error") and res.source_id is node.node_id),
               node.entity_id == z3.Select(refs.vals, name), ops.eq(res.signal_type, z3.String("fresh_implicit_type")))


CONTRACTS.append(Contract(
    qualname=EL + "lower_property_access", params={"self": _SELF, "expr": ty.TObj("PropertyAccessExpr", only=("PropertyAccessExpr",), ftypes=(("object_name", ty.Str), ("property_name", ty.Str)))},
    requires=[("(reset capture)", _reset)],
    ensures=[("ONE property-read node of that entity and property on a fresh type; an unknown entity is an ERROR and a constant 0", _propread_post)],
    uses={**_BASE, "IRBuilder.add_operation": _add_op, "IRBuilder.const": _const0}, dynamic_types=_DYN, properties=("C06",), min_obligations=2, no_replay=True))
CONTRACTS += [_add_op, _next_id, _const0]


# ---------------------------------------------------------------------------------------------------------------------
def _dict_post(kinds):
    def post(a, res):
        if not isinstance(res, dict):
            return False
        errs = 0
        want = {}
        for key, kind in zip(("k1", "k2"), kinds):
            v = a.expr.entries[key]
            if kind in ("number", "string"):
                want[key] = v.value
            elif kind == "typed-literal":
                want[key] = v.value.value
            else:
                inner = v.value if kind == "typed-expression" else v
                lowered = inner._fields.get("@lowered")
                if isinstance(lowered, (int, str)) or (ops.is_sym(lowered) and (z3.is_int(lowered) or z3.is_string(lowered))):
                    want[key] = lowered
                else:
                    errs += 1
        return _b(len(REC.get("error", [])) == errs and set(res) == set(want) and all(res[k] is want[k] for k in want))
    return post


_VAL_T = {"number": ty.TObj("Expr", only=("NumberLiteral",), ftypes=(("value", ty.Int),)), "string": ty.TObj("Expr", only=("StringLiteral",), ftypes=(("value", ty.Str),)),
          "typed-literal": ty.TObj("Expr", only=("SignalLiteral",), ftypes=(("value", ty.TObj("Expr", only=("NumberLiteral",), ftypes=(("value", ty.Int),))),)),
          "typed-expression": ty.TObj("Expr", only=("SignalLiteral",), ftypes=(("value", ty.TObj("Expr", only=("IdentifierExpr", "BinaryOp"))),)),
          "expression": ty.TObj("Expr", only=("IdentifierExpr", "BinaryOp"))}
import itertools as _it  # noqa: E402
for _k1, _k2 in _it.product(_VAL_T, repeat=2):
    if (_k1, _k2) not in (("number", "string"), ("typed-literal", "expression"), ("expression", "typed-expression"), ("string", "expression"), ("typed-expression", "number")):
        continue
    CONTRACTS.append(Contract(
        qualname=EL + "lower_dict_literal",
        params={"self": _SELF, "expr": ty.TObj("DictLiteral", only=("DictLiteral",), ftypes=(("entries", ty.TRecord((("k1", _VAL_T[_k1]), ("k2", _VAL_T[_k2])))),))},
        requires=[("(reset capture)", _reset)],
        ensures=[("every key once with its own value: literals by value, expressions by what they lower to when that is an integer or a string; anything else is an ERROR and left out",
                  _dict_post((_k1, _k2)))],
        uses={**_BASE, "ExpressionLowerer.lower_expr": _lower_any}, dynamic_types=_DYN, properties=("C09",), min_obligations=1, no_replay=True, note=f"values: {_k1}, {_k2}"))


# ---------------------------------------------------------------------------------------------------------------------
def _rst_sem(ex, a):
    REC.setdefault("asked_analyser", []).append((a.args[0], a.args[1]))
    return ghost(a.args[0], "analyser_says", ty.TOpt(ty.Str))


def _rst_str_post(a, res):
    return _b(res is a.type_ref and not REC.get("error"))


def _rst_post(a, res):
    r = a.type_ref
    pv, sv = a.self.parent.param_values, a.self.parent.signal_refs
    asked = [(k, b) for k, b in pv.all_tests] + [(k, b) for k, b in sv.all_tests]
    in_param = pv.all_tests[0][1] if pv.all_tests else None
    if in_param is None or pv.all_tests[0][0] is not r.object_name:
        return False
    looked_p = [x for _k, x in pv.lookups]
    looked_s = [x for _k, x in sv.lookups]
    if looked_p:
        v = looked_p[-1]
        return And(in_param, _b(res is v.signal_type and not REC.get("error") and not sv.all_tests and not REC.get("asked_analyser")))
    if not sv.all_tests or sv.all_tests[0][0] is not r.object_name:
        return False
    in_var = sv.all_tests[0][1]
    if looked_s:
        v = looked_s[-1]
        return And(Not(in_param), in_var, _b(res is v.signal_type and not REC.get("error") and not REC.get("asked_analyser")))
    said = REC.get("asked_analyser", [])
    return And(Not(in_param), Not(in_var), _b(len(said) == 1 and said[0][0] is r and res is r._fields.get("@analyser_says")))


CONTRACTS.append(Contract(qualname=EL + "_resolve_signal_type", params={"self": _SELF, "type_ref": ty.Str, "expr": _OPQ}, requires=[("(reset capture)", _reset)],
                          ensures=[("a written type name is returned as it is", _rst_str_post)], uses=_BASE, dynamic_types=_DYN, properties=("C13", "C01"), min_obligations=1, no_replay=True,
                          note="a written name"))
CONTRACTS.append(Contract(
    qualname=EL + "_resolve_signal_type", params={"self": _SELF, "type_ref": ty.TObj("SignalTypeAccess", only=("SignalTypeAccess",), ftypes=(("object_name", ty.Str),)), "expr": _OPQ},
    requires=[("(reset capture)", _reset)],
    ensures=[("x.type is the type of the value x is bound to: a parameter first, then a variable; otherwise what the analyser resolves", _rst_post)],
    uses={**_BASE, "opaque.resolve_signal_type_access": Contract(qualname="dsl_compiler/src/semantic/analyzer.py::SemanticAnalyzer.resolve_signal_type_access", params={"args": _OPQ}, effect=_rst_sem, verify=False,
                                                                 note="proved in contracts.c14d")},
    dynamic_types={**_DYN, "self.parent": {**_DYN["self.parent"], "semantic": ty.TOpaque("semantic")}}, properties=("C13", "C01", "C15"), min_obligations=3, no_replay=True, note="x.type"))


# ---------------------------------------------------------------------------------------------------------------------
def _gat_name(ex, a):
    return ghost(ex.args_ns.semantic_type, "name", ty.TOpt(ty.Str))


def _gat_post(a, res):
    v, sem = a.value_ref, a.semantic_type
    if not isinstance(v, SObj):
        return _b(res is sem)
    t = v.signal_type
    wild = Or(t == "signal-anything", t == "signal-everything", t == "signal-each")
    sem_name = sem._fields.get("@name")
    if res is sem:
        same = (ops.eq(t, sem_name) if sem_name is not None else z3.BoolVal(False))
        return Or(wild, z3.Length(t) == 0, same)
    differs = Not(ops.eq(t, sem_name)) if sem_name is not None else z3.BoolVal(True)
    return And(Not(wild), z3.Length(t) > 0, differs, _b(isa(res, "SignalValue") is True and res.signal_type.name is t))


CONTRACTS.append(Contract(
    qualname=EL + "_get_actual_type_from_ref", params={"self": _SELF, "value_ref": _REF, "semantic_type": ty.TObj("ValueInfo", only=("IntValue", "SignalValue"))},
    ensures=[("the type the value carries replaces the analyser's exactly when it is a real signal name that differs from it; a wildcard never does", _gat_post)],
    uses={**_BASE, "fn:get_signal_type_name": Contract(qualname="dsl_compiler/src/semantic/type_system.py::get_signal_type_name", params={"value_type": _OPQ}, effect=_gat_name, verify=False,
                                                       note="three-line accessor: the signal name of a signal type, None otherwise")},
    dynamic_types=_DYN, properties=("C15", "C01"), min_obligations=3, no_replay=True))


# ---------------------------------------------------------------------------------------------------------------------
_SIMPLE = {"NumberLiteral", "SignalLiteral", "IdentifierExpr", "BundleAnyExpr", "BundleAllExpr"}
for _cls in ("NumberLiteral", "SignalLiteral", "IdentifierExpr", "BundleAnyExpr", "BundleAllExpr", "BinaryOp", "UnaryOp", "ProjectionExpr", "CallExpr", "ReadExpr", "BundleSelectExpr", "OutputSpecExpr"):
    CONTRACTS.append(Contract(qualname=EL + "_is_simple_operand", params={"self": _SELF, "expr": ty.TObj("Expr", only=(_cls,))},
                              ensures=[("literals, names and any()/all() may sit in a folded condition row; nothing else", (lambda c: lambda a, res: (res is True or res == True) if c in _SIMPLE else (res is False or res == False))(_cls))],  # noqa: E712
                              properties=("C01",), min_obligations=1, no_replay=True, note=_cls))
