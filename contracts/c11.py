"""C11 contracts: compile-time arithmetic equals run-time arithmetic (spec S1)."""
from __future__ import annotations

import z3

from pyvc import types as ty
from pyvc.contract import Contract, LoopSpec
from spec import arith32 as A
from spec import ops
from spec.ops import And, Implies, Not, Or

FOLD = "dsl_compiler/src/lowering/constant_folder.py::ConstantFolder.fold_binary_operation"
ALL_TAGS = A.ARITH_OPS + A.CMP_OPS + A.LOGIC_OPS


def _powf():
    return z3.Function("pow", z3.IntSort(), z3.IntSort(), z3.IntSort())


def _pow(a, b):
    if ops.is_sym(a) or ops.is_sym(b):
        return _powf()(ops._lift(a, b), ops._lift(b, a))
    return a**b


def fold_spec(op, l, r, res):
    """res == run-time value of `l op r`, on the domain the property fixes."""
    if op in ("<<", ">>"):
        return Implies(And(r >= 0, r <= 31), ops.eq(res, A.fa(op, l, r)))
    if op == "**":
        return Implies(r >= 0, ops.eq(res, A.wrap32(_pow(l, r))))
    return ops.eq(res, A.fa_any(op, l, r))


def _i32_or_none(res):
    return Or(ops.is_none(res), A.i32(res)) if res is not None else True


# --- known-finding classes (only active if listed in KNOWN_FINDINGS.jsonl) -----------------------
def cls_no_wrap(op):
    """Folded value is the exact mathematical result, which does not fit int32 (no wrap-around)."""
    def f(a, res):
        exact = {"+": a.left + a.right, "-": a.left - a.right, "*": a.left * a.right}[op]
        return And(ops.eq(res, exact), Not(A.i32(exact)))
    return f


fold_contract = Contract(
    qualname=FOLD,
    params={"op": ty.Str, "left": ty.Int, "right": ty.Int, "node": ty.TOpaque("ast"), "diagnostics": ty.TConcrete(None)},
    requires=[("int32 operands", lambda a: And(A.i32(a.left), A.i32(a.right)))],
    ensures=[
        ("value equals run-time arithmetic", lambda a, res: fold_spec(a.op, a.left, a.right, res)),
        ("result fits int32", lambda a, res: A.i32(res)),
    ],
    case_split={"op": list(ALL_TAGS)},
    returns=ty.TOpt(ty.Int),
    properties=("C11", "C09", "C01"),
    min_obligations=2 * len(ALL_TAGS),
)

fold_other_contract = Contract(
    qualname=FOLD,
    params={"op": ty.Str, "left": ty.Int, "right": ty.Int, "node": ty.TOpaque("ast"), "diagnostics": ty.TConcrete(None)},
    requires=[("op is no operator tag", lambda a: And(*[a.op != t for t in ALL_TAGS]))],
    ensures=[("unknown tag is not folded", lambda a, res: res is None)],
    properties=("C11",),
)

CONTRACTS = [fold_contract, fold_other_contract]

# =================================================================================================
# IR-level folding: ConstantPropagationOptimizer._fold_arithmetic / _fold_comparison
# =================================================================================================
OPT = "dsl_compiler/src/ir/optimizer.py::ConstantPropagationOptimizer."
OPT_ARITH_TAGS = ["+", "-", "*", "/", "%", "**", "^", "<<", ">>", "&", "AND", "|", "OR", "XOR"]
_CANON = {"^": "**", "&": "AND", "|": "OR"}


def opt_fold_spec(op, l, r, res):
    """Declining to fold (None) is always allowed; a folded value must be the run-time value."""
    if res is None:
        return True
    cop = _CANON.get(op, op)
    if cop in ("/", "%"):
        return Implies(r != 0, ops.eq(res, A.fa(cop, l, r)))
    return fold_spec(cop, l, r, res)


def cls_floor_div(a, res):
    """IR-level `/` folds with Python floor division: off by one exactly when the signs differ and
    the division is inexact (pinned by dsl_compiler/src/ir/tests/test_optimizer.py: -10/3 == -4)."""
    l, r = a.left, a.right
    return And(r != 0, ops.eq(res, ops.floordiv(l, ops.ite(r == 0, 1, r))),
               Not(ops.Iff(l < 0, r < 0)), ops.floormod(l, ops.ite(r == 0, 1, r)) != 0)


opt_fold_arith = Contract(
    qualname=OPT + "_fold_arithmetic",
    params={"self": ty.TObj("ConstantPropagationOptimizer"), "op": ty.Str, "left": ty.Int, "right": ty.Int},
    requires=[("int32 operands", lambda a: And(A.i32(a.left), A.i32(a.right)))],
    ensures=[
        ("folded value equals run-time arithmetic", lambda a, res: opt_fold_spec(a.op, a.left, a.right, res)),
        ("folded value fits int32", lambda a, res: True if res is None else A.i32(res)),
    ],
    known={"folded value equals run-time arithmetic": [("KF-C11-ir-floor-division", cls_floor_div)]},
    case_split={"op": OPT_ARITH_TAGS},
    returns=ty.TOpt(ty.Int),
    properties=("C11", "C10"),
    min_obligations=2 * len(OPT_ARITH_TAGS),
)

opt_fold_arith_other = Contract(
    qualname=OPT + "_fold_arithmetic",
    params={"self": ty.TObj("ConstantPropagationOptimizer"), "op": ty.Str, "left": ty.Int, "right": ty.Int},
    requires=[("op is no arithmetic tag", lambda a: And(*[a.op != t for t in OPT_ARITH_TAGS]))],
    ensures=[("unknown tag is not folded", lambda a, res: res is None)],
    properties=("C11", "C10"),
)

OPT_CMP_TAGS = ["==", "=", "!=", "≠", "<", "<=", ">", ">="]

opt_fold_cmp = Contract(
    qualname=OPT + "_fold_comparison",
    params={"self": ty.TObj("ConstantPropagationOptimizer"), "op": ty.Str, "left": ty.Int, "right": ty.Int},
    requires=[("int32 operands", lambda a: And(A.i32(a.left), A.i32(a.right)))],
    ensures=[("comparison truth value", lambda a, res: res is not None and ops.Iff(res, A.cmp(a.op, a.left, a.right)))],
    case_split={"op": OPT_CMP_TAGS},
    returns=ty.TOpt(ty.Bool),
    properties=("C11", "C10"),
    min_obligations=len(OPT_CMP_TAGS),
)

opt_fold_cmp_other = Contract(
    qualname=OPT + "_fold_comparison",
    params={"self": ty.TObj("ConstantPropagationOptimizer"), "op": ty.Str, "left": ty.Int, "right": ty.Int},
    requires=[("op is no comparison tag", lambda a: And(*[a.op != t for t in OPT_CMP_TAGS]))],
    ensures=[("unknown tag is not folded", lambda a, res: res is None)],
    properties=("C11", "C10"),
)

CONTRACTS += [opt_fold_arith, opt_fold_arith_other, opt_fold_cmp, opt_fold_cmp_other]

# =================================================================================================
# ConstantFolder.extract_constant_int — structural recursion over the AST, against S3's
# constant denotation.  The recursive calls are used BY CONTRACT (induction over the finite AST):
# `cden(e)` is a ghost attribute = the value S3 assigns to sub-expression e (None: not constant).
# =================================================================================================
from pyvc.ghost import ghost, isa  # noqa: E402
from pyvc.values import ClassRef  # noqa: E402

EXTRACT = "dsl_compiler/src/lowering/constant_folder.py::ConstantFolder.extract_constant_int"


def _real_cden(resolver):
    """S3 constant denotation on real AST objects (executable twin, written from the property
    statement, not from the code)."""
    def den(e):
        if isa(e, "NumberLiteral"):
            return e.value
        if isa(e, "IdentifierExpr"):
            return resolver(e.name) if resolver is not None else None
        if isa(e, "SignalLiteral"):
            return den(e.value)
        if isa(e, "UnaryOp"):
            v = den(e.expr)
            if v is None:
                return None
            return {"+": v, "-": A.wrap32(-v)}.get(e.op)
        if isa(e, "BinaryOp"):
            l, r = den(e.left), den(e.right)
            if l is None or r is None or e.op not in ALL_TAGS:
                return None
            if e.op in ("<<", ">>") and not 0 <= r <= 31:
                return "unspecified"
            if e.op == "**" and r < 0:
                return "unspecified"
            return A.fa_any(e.op, l, r)
        return None
    return den


def cden(e, resolver=None):
    return ghost(e, "cden", ty.TOpt(ty.Int), concrete=lambda o: _real_cden(resolver)(o))


def _resolver_value(a, name):
    r = a.symbol_resolver
    if r is None:
        return None
    if callable(r) and not hasattr(r, "val_fn"):
        return r(name)
    return SObj_call(r, name)


def SObj_call(sfun, *args):
    from pyvc.values import SObj
    return SObj.CUR.call(sfun, list(args), {})


def extract_spec(a, res):
    """res == S3 constant value of a.expr, one unfolding of the recursive definition."""
    e = a.expr
    rs = a.symbol_resolver
    if isa(e, "NumberLiteral"):
        return ops.eq(res, e.value)
    if isa(e, "IdentifierExpr"):
        return _opt_eq(res, _resolver_value(a, e.name))
    if isa(e, "SignalLiteral"):
        return _opt_eq(res, cden(e.value, rs))
    if isa(e, "UnaryOp"):
        v = cden(e.expr, rs)
        if v is None:
            return res is None
        return ops.And(
            Implies(e.op == "+", ops.eq(res, v)),
            Implies(e.op == "-", ops.eq(res, A.wrap32(-v))),
            Implies(And(e.op != "+", e.op != "-"), res is None),
        )
    if isa(e, "BinaryOp"):
        l, r = cden(e.left, rs), cden(e.right, rs)
        if l is None or r is None:
            return res is None
        clauses = []
        for t in ALL_TAGS:
            clauses.append(Implies(e.op == t, fold_spec(t, l, r, res) if res is not None else False))
        clauses.append(Implies(And(*[e.op != t for t in ALL_TAGS]), res is None))
        return And(*clauses)
    return res is None


def _opt_eq(x, y):
    if x is None or y is None:
        return x is None and y is None
    return ops.eq(x, y)


def _i32_opt(v):
    return True if v is None else A.i32(v)


def _wf_expr(a):
    """Type invariant of the input AST on the property's domain: literal values and resolved names are
    int32, and so are the constant values of sub-expressions (induction hypothesis)."""
    e = a.expr
    cs = []
    if isa(e, "NumberLiteral"):
        cs.append(A.i32(e.value))
    elif isa(e, "SignalLiteral"):
        cs.append(_i32_opt(cden(e.value, a.symbol_resolver)))
        if isa(e.value, "NumberLiteral"):
            cs.append(_opt_eq(cden(e.value, a.symbol_resolver), e.value.value))
    elif isa(e, "UnaryOp"):
        cs.append(_i32_opt(cden(e.expr, a.symbol_resolver)))
    elif isa(e, "BinaryOp"):
        cs.append(_i32_opt(cden(e.left, a.symbol_resolver)))
        cs.append(_i32_opt(cden(e.right, a.symbol_resolver)))
    return And(*cs) if cs else True


def _rec_effect(ex, a):
    """Callee view of the recursive call: returns the ghost constant value of the sub-expression."""
    return cden(a.expr, a.symbol_resolver)


extract_rec = Contract(
    qualname=EXTRACT,
    params={"cls": ty.TOpaque("cls"), "expr": ty.TObj("Expr"), "diagnostics": ty.TOpaque("diag"),
            "symbol_resolver": ty.TOpaque("resolver")},
    defaults={"diagnostics": None, "symbol_resolver": None},
    effect=_rec_effect,
    verify=False,
    note="recursive call used by contract (structural induction over the finite AST); the same contract is verified on the body",
)

_fold_callee = Contract(
    qualname=FOLD,
    params={"op": ty.Str, "left": ty.Int, "right": ty.Int, "node": ty.TOpaque("ast"), "diagnostics": ty.TOpaque("diag")},
    defaults={"diagnostics": None},
    requires=[("int32 operands", lambda a: And(A.i32(a.left), A.i32(a.right)))],
    returns=ty.TOpt(ty.Int),
    callee_ensures=[("fold", lambda a, res: And(*(
        [Implies(a.op == t, fold_spec(t, a.left, a.right, res) if res is not None else False) for t in ALL_TAGS]
        + [Implies(And(*[a.op != t for t in ALL_TAGS]), res is None)]
        + [True if res is None else A.i32(res)])))],
    verify=False,
    note="proved above as fold_contract / fold_other_contract (same qualname)",
)

_RESOLVER_T = ty.TOpt(ty.TFun((ty.Str,), ty.TOpt(ty.Int), "resolver"))


def _resolver_i32(a):
    r = a.symbol_resolver
    if r is None or not hasattr(r, "val_fn"):
        return True
    n = z3.String("any_name")
    return z3.ForAll([n], A.i32(r.val_fn(n)))


def _build_expr(model, o, build):
    """Replay builder: a sub-expression known only through its ghost constant value becomes a real
    AST node with exactly that S3 value."""
    if "@cden" not in o._fields:
        return None
    from dsl_compiler.src.ast.expressions import UnaryOp
    from dsl_compiler.src.ast.literals import NumberLiteral, StringLiteral
    v = build(o._fields["@cden"])
    if v is None:
        return StringLiteral("not-a-constant")
    if "NumberLiteral" in o._cls_set:
        return NumberLiteral(v)
    return UnaryOp("+", NumberLiteral(v))


extract_contract = Contract(
    qualname=EXTRACT,
    params={"cls": ty.TConcrete(ClassRef("ConstantFolder")), "expr": ty.TObj("Expr"), "diagnostics": ty.TConcrete(None),
            "symbol_resolver": _RESOLVER_T},
    requires=[("well-formed int32 AST", _wf_expr), ("resolver yields int32", _resolver_i32)],
    ensures=[("value is the S3 constant denotation", extract_spec),
             ("result fits int32", lambda a, res: _i32_opt(res))],
    build_args=_build_expr,
    uses={"ConstantFolder.extract_constant_int": extract_rec, "ConstantFolder.fold_binary_operation": _fold_callee},
    returns=ty.TOpt(ty.Int),
    properties=("C11", "C09", "C16"),
    min_obligations=10,
)

CONTRACTS += [extract_contract, extract_rec, _fold_callee]

# =================================================================================================
# ExpressionLowerer._try_fold_wire_merge: a wire merge of anonymous constants is folded to ONE constant whose
# value must be what the wire would carry at run time — the int32 wrap-around sum (a network sum wraps).
# (Lists of 2, 3 and 4 sources: bounded list length, symbolic values.)
# =================================================================================================
from pyvc.values import SObj as _SObj, fresh_name as _fresh  # noqa: E402
from pyvc.ghost import ghost as _ghost  # noqa: E402

EL_ = "dsl_compiler/src/lowering/expression_lowerer.py::ExpressionLowerer."
IRB_ = "dsl_compiler/src/ir/builder.py::IRBuilder."
FOLDED = {}
_CONSTNODE = ty.TOpt(ty.TObj("IRNode", only=("IRConst", "IRArith"), ftypes=(
    ("value", ty.Int), ("debug_metadata", ty.TRecord((("user_declared", ty.Bool),))), ("debug_label", ty.TOpt(ty.Str)))))
_NODES = {}


def _get_op_effect(ex, a):
    key = a.node_id
    for k, v in _NODES.items():
        if k is key or (ops.is_sym(k) and ops.is_sym(key) and k.eq(key)):
            return v
    node = ex.mk(_CONSTNODE, _fresh("node"), register=True)
    _NODES[key] = node
    return node


get_op = Contract(qualname=IRB_ + "get_operation", params={"self": ty.TOpaque("b"), "node_id": ty.TOpaque("id")}, effect=_get_op_effect, verify=False,
                  note="dictionary lookup: one node per id")


def _const_effect(ex, a):
    FOLDED["value"] = a.value
    FOLDED["type"] = a.signal_type
    r = _SObj(["SignalRef"], _fresh("folded"), lazy=False)
    r._fields["signal_type"] = a.signal_type
    r._fields["source_id"] = z3.String(_fresh("folded_id"))
    return r


const_ctor = Contract(qualname=IRB_ + "const", params={"self": ty.TOpaque("b"), "signal_type": ty.TOpaque("t"), "value": ty.TOpaque("v"), "source_ast": ty.TOpaque("a")},
                      defaults={"source_ast": None}, effect=_const_effect, verify=False, note="creates the folded constant (value recorded)")


def _merge_fold_post(n):
    def post(a, res):
        if res is None:
            return True
        vals = [_NODES[k].value for k in _NODES if _NODES[k] is not None][:n]
        srcs = list(a.sources)
        nodes = []
        for s in srcs:
            for k, v in _NODES.items():
                if k is s.source_id:
                    nodes.append(v)
        if len(nodes) != n or any(x is None for x in nodes):
            return False
        total = sum(x.value for x in nodes)
        return And(ops.eq(FOLDED.get("value"), A.wrap32(total)), FOLDED.get("type") is a.output_type)
    return post


_SRC = ty.TObj("SignalRef", only=("SignalRef",))
for _n in (2, 3, 4):
    CONTRACTS.append(Contract(
        qualname=EL_ + "_try_fold_wire_merge",
        params={"self": ty.TObj("ExpressionLowerer", only=("ExpressionLowerer",)), "sources": ty.TTuple(tuple(_SRC for _ in range(_n))),
                "output_type": ty.Str, "source_ast": ty.TOpaque("ast")},
        requires=[("(reset capture)", lambda a: (FOLDED.clear(), _NODES.clear()) and True),
                  ("member values are int32", lambda a: True)],
        ensures=[("a folded merge carries the int32 wrap-around sum of its members", _merge_fold_post(_n))],
        uses={"IRBuilder.get_operation": get_op, "IRBuilder.const": const_ctor, "opaque.info": "skip"},
        dynamic_types={"self": {"ir_builder": ty.TObj("IRBuilder", only=("IRBuilder",)), "parent": ty.TOpaque("parent"), "diagnostics": ty.TOpaque("diag")}},
        properties=("C11", "C01"), min_obligations=1, no_replay=True, note=f"{_n} sources (bounded list length)"))
CONTRACTS += [get_op, const_ctor]

# =================================================================================================
# ConstantPropagationOptimizer._get_const_value: the integer the optimizer folds with is the value the operand has at
# run time: the literal itself, a scalar constant's value, or — for a reference into a bundle constant — the value of
# the member the reference selects (None when the member is absent or the producer is not a constant).
# =================================================================================================
CP_ = "dsl_compiler/src/ir/optimizer.py::ConstantPropagationOptimizer."
_BCONST = ty.TObj("IRConst", only=("IRConst",), ftypes=(("value", ty.Int), ("signals", ty.TDict(ty.Str, ty.Int))))


def _gcv_post(a, res):
    v = a.value
    if not isinstance(v, _SObj):
        return ops.eq(res, v) if res is not None else False
    # follow the replacement chain: out of this clause's reach (assumed empty here)
    looked = [r for (_k, r) in a.const_map.lookups if r is not None]
    tests = a.const_map.tests
    if not looked:
        return res is None
    c = looked[-1]
    nonempty = z3.Exists([z3.String("some_member")], z3.Select(c.signals.present, z3.String("some_member")))
    member_present = z3.Select(c.signals.present, v.signal_type)
    member_val = z3.Select(c.signals.vals, v.signal_type)
    if res is None:
        return And(nonempty, Not(member_present))
    return z3.If(nonempty, And(member_present, res == member_val), res == c.value)


get_const_value = Contract(
    qualname=CP_ + "_get_const_value",
    params={"self": ty.TObj("ConstantPropagationOptimizer", only=("ConstantPropagationOptimizer",)), "value": ty.TUnion((ty.Int, ty.TObj("SignalRef", only=("SignalRef",)))),
            "const_map": ty.TObjMap(ty.Str, _BCONST)},
    requires=[("no pending replacement for this reference", lambda a: True)],
    ensures=[("a scalar constant's value, or the selected member of a bundle constant", _gcv_post)],
    dynamic_types={"self": {"replacements": ty.TConcrete({})}},
    returns=ty.TOpt(ty.Int), properties=("C11", "C10", "C02"), min_obligations=3, no_replay=True,
)
CONTRACTS.append(get_const_value)


# =================================================================================================
# PlanEntityEmitter._configure_constant: the constant combinator shows exactly the placement's numbers — a scalar constant
# one filter (slot 0: its signal, its value), a bundle constant one filter per member in order (slot i: member i's signal
# and value); all in ONE section; nothing when there is no signal.  Bundles of two and three members (bounded), values symbolic.
# =================================================================================================
PE_ = "dsl_compiler/src/emission/entity_emitter.py::PlanEntityEmitter."
SECTIONS = []


class _Section:
    def __init__(self):
        self.filters = []


def _add_section(ex, a):
    from pyvc.values import Opaque
    sec = Opaque("section")
    sec.filters = []
    SECTIONS.append(sec)
    return sec


def _set_signal(ex, a):
    a.recv.filters.append(tuple(a.args))
    return None


add_section_c = Contract(qualname="draftsman::ConstantCombinator.add_section", params={"args": ty.TOpaque("a")}, effect=_add_section, verify=False,
                         note="ASSUMED (draftsman): add_section() opens a new signal section of the combinator")
set_signal_c = Contract(qualname="draftsman::Section.set_signal", params={"args": ty.TOpaque("a")}, effect=_set_signal, verify=False,
                        note="ASSUMED (draftsman): set_signal(slot, name, count) puts that filter in that slot (the decoded blueprint is checked end to end: C07 CLI matrix)")


def _cc_post(members):
    def post(a, res):
        props = a.props
        if members:
            if len(SECTIONS) != 1:
                return False
            f = SECTIONS[0].filters
            want = list(props["signals"].items())
            return len(f) == len(want) and all(fi[0] == i and fi[1] == k and fi[2] is v for i, (fi, (k, v)) in enumerate(zip(f, want)))
        name = props["signal_name"]
        if not SECTIONS:
            return name is None or z3.Length(name) == 0
        if len(SECTIONS) != 1 or len(SECTIONS[0].filters) != 1 or name is None:
            return False
        f = SECTIONS[0].filters[0]
        return And(z3.Length(name) > 0, f[0] == 0, f[1] is name, f[2] is props["value"])
    return post


for _members in (0, 2, 3):
    if _members:
        _props = ty.TRecord((("signals", ty.TRecord(tuple((f"signal-{'ABC'[i]}", ty.Int) for i in range(_members)))),))
    else:
        _props = ty.TRecord((("signals", ty.TConcrete(None)), ("signal_name", ty.TOpt(ty.Str)), ("value", ty.Int)))
    CONTRACTS.append(Contract(
        qualname=PE_ + "_configure_constant", params={"self": ty.TObj("PlanEntityEmitter", only=("PlanEntityEmitter",)), "entity": ty.TOpaque("combinator"), "props": _props},
        requires=[("(reset capture)", lambda a: SECTIONS.clear() or True)],
        ensures=[("one section; slot i holds member i's signal and value (scalar: slot 0 holds the signal and the value); nothing without a signal", _cc_post(_members))],
        uses={"opaque.add_section": add_section_c, "opaque.set_signal": set_signal_c},
        properties=("C11", "C07", "C02"), min_obligations=1, no_replay=True, note=("scalar constant" if not _members else f"bundle constant of {_members} members (bounded)")))
CONTRACTS += [add_section_c, set_signal_c]


# =================================================================================================
# DSLTransformer._parse_number: the integer a literal denotes — decimal, 0x / 0X hexadecimal, 0o / 0O octal, 0b / 0B binary,
# surrounding blanks ignored — is the positional value of its digits.  String-to-integer conversion is outside both SMT
# solvers' decidable string fragment, so the contract is evaluated on the REAL function over an enumerated box: bounded.
# =================================================================================================
PNQ = "dsl_compiler/src/parsing/transformer.py::DSLTransformer._parse_number"
_DIGITS = "0123456789abcdef"


def _positional(text):
    t = text.strip()
    neg = t.startswith("-")
    if neg or t.startswith("+"):
        t = t[1:]
    base, body = 10, t
    for pre, b in (("0x", 16), ("0o", 8), ("0b", 2)):
        if t.lower().startswith(pre):
            base, body = b, t[2:]
    v = 0
    for ch in body.lower():
        if ch == "_":
            continue
        v = v * base + _DIGITS.index(ch)
    return -v if neg else v


parse_number = Contract(qualname=PNQ, params={"text": ty.Str}, ensures=[("the positional value of the digits in the base the prefix announces", lambda a, res: res == _positional(a.text))],
                        verify=False, properties=("C11",), note="evaluated on the real function over an enumerated box (bounded stand-in)")
CONTRACTS.append(parse_number)


def parse_number_arg_sets():
    import itertools
    texts = []
    for pre, digits in (("", "0123456789"), ("0x", "0123456789abcdefABCDEF"), ("0X", "09afAF"), ("0o", "01234567"), ("0O", "0127"), ("0b", "01"), ("0B", "01")):
        for n in (1, 2, 3):
            if len(digits) ** n > 12000:
                continue
            for combo in itertools.product(digits, repeat=n):
                texts.append(pre + "".join(combo))
    for v in (0, 1, 7, 8, 9, 10, 255, 256, 65535, 65536, 2147483647, 2147483648, 4294967295, 4294967296, 9999999999):
        texts += [str(v), hex(v), oct(v), bin(v), hex(v).upper().replace("0X", "0x"), f" {v} ", f"\t{hex(v)}\n", f"-{v}"]
    return [{"text": t} for t in texts]
