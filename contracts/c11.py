"""C11 contracts: compile-time arithmetic equals run-time arithmetic (spec S1)."""
from __future__ import annotations

import z3

from pyvc import types as ty
from pyvc.contract import Contract, LoopSpec
from spec import arith32 as A
from spec import ops
from spec.ops import And, Implies, Not, Or

FOLD = "dsl_compiler/src/lowering/constant_folder.py::ConstantFolder.fold_binary_operation"
ALL_TAGS = A.ARITH_OPS + A.CMP_OPS + A.LOGIC_OPS


def _powf():
    return z3.Function("pow", z3.IntSort(), z3.IntSort(), z3.IntSort())


def _pow(a, b):
    if ops.is_sym(a) or ops.is_sym(b):
        return _powf()(ops._lift(a, b), ops._lift(b, a))
    return a**b


def fold_spec(op, l, r, res):
    """res == run-time value of `l op r`, on the domain the property fixes."""
    if op in ("<<", ">>"):
        return Implies(And(r >= 0, r <= 31), ops.eq(res, A.fa(op, l, r)))
    if op == "**":
        return Implies(r >= 0, ops.eq(res, A.wrap32(_pow(l, r))))
    return ops.eq(res, A.fa_any(op, l, r))


def _i32_or_none(res):
    return Or(ops.is_none(res), A.i32(res)) if res is not None else True


# --- known-finding classes (only active if listed in KNOWN_FINDINGS.jsonl) -----------------------
def cls_no_wrap(op):
    """Folded value is the exact mathematical result, which does not fit int32 (no wrap-around)."""
    def f(a, res):
        exact = {"+": a.left + a.right, "-": a.left - a.right, "*": a.left * a.right}[op]
        return And(ops.eq(res, exact), Not(A.i32(exact)))
    return f


fold_contract = Contract(
    qualname=FOLD,
    params={"op": ty.Str, "left": ty.Int, "right": ty.Int, "node": ty.TOpaque("ast"), "diagnostics": ty.TConcrete(None)},
    requires=[("int32 operands", lambda a: And(A.i32(a.left), A.i32(a.right)))],
    ensures=[
        ("value equals run-time arithmetic", lambda a, res: fold_spec(a.op, a.left, a.right, res)),
        ("result fits int32", lambda a, res: A.i32(res)),
    ],
    case_split={"op": list(ALL_TAGS)},
    returns=ty.TOpt(ty.Int),
    properties=("C11", "C09", "C01"),
    min_obligations=2 * len(ALL_TAGS),
)

fold_other_contract = Contract(
    qualname=FOLD,
    params={"op": ty.Str, "left": ty.Int, "right": ty.Int, "node": ty.TOpaque("ast"), "diagnostics": ty.TConcrete(None)},
    requires=[("op is no operator tag", lambda a: And(*[a.op != t for t in ALL_TAGS]))],
    ensures=[("unknown tag is not folded", lambda a, res: res is None)],
    properties=("C11",),
)

CONTRACTS = [fold_contract, fold_other_contract]
