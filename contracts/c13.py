"""C13 contracts: allocation of compiler-chosen signals from the pool."""
from __future__ import annotations

import z3

from pyvc import types as ty
from pyvc.contract import Contract
from spec import ops
from spec.ops import And, Implies, Not, Or, at, length

SA = "dsl_compiler/src/layout/signal_analyzer.py::SignalAnalyzer."
_T = {"_available_signal_pool": ty.TList(ty.Str), "_signal_pool_index": ty.Int, "_warned_signal_reuse": ty.Bool,
      "_allocated_signals": ty.TSet(ty.Str), "diagnostics": ty.TOpaque("diag")}


def _post(a, res):
    pool = a.old.self._available_signal_pool
    i0 = a.old.self._signal_pool_index
    n = length(pool)
    return And(
        Implies(n == 0, res == "signal-0"),
        # fresh until exhaustion: the element at the old cursor, cursor advanced by one
        Implies(And(n > 0, i0 < n), And(res == at(pool, i0), a.self._signal_pool_index == i0 + 1)),
        # wrap-around only after the warning flag is set
        Implies(And(n > 0, i0 >= n), And(res == at(pool, 0), a.self._signal_pool_index == 1, a.self._warned_signal_reuse)),
        # the result is always a pool element (or the documented fall-back)
        Implies(n > 0, z3.Exists([_K], And(_K >= 0, _K < n, res == at(pool, _K)))),
        Implies(n > 0, z3.Select(a.self._allocated_signals.member, _s(res))),
    )


_K = z3.Int("k_pool")


def _s(x):
    return z3.StringVal(x) if isinstance(x, str) else x

allocate = Contract(
    qualname=SA + "_allocate_factorio_virtual_signal",
    params={"self": ty.TObj("SignalAnalyzer", only=("SignalAnalyzer",))},
    requires=[("cursor is a natural number", lambda a: a.self._signal_pool_index >= 0),
              ("pool and flags exist", lambda a: And(length(a.self._available_signal_pool) >= 0,
                                                   Or(a.self._warned_signal_reuse, Not(a.self._warned_signal_reuse)),
                                                   a.self._allocated_signals is not None))],
    ensures=[("returns pool[cursor] and advances; wraps only after warning; result recorded as allocated", _post)],
    dynamic_types={"self": _T},
    uses={"opaque.info": "skip", "opaque.warning": "skip"},
    properties=("C13", "C12"),
    min_obligations=3,
)

CONTRACTS = [allocate]
