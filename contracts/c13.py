"""C13 contracts: allocation of compiler-chosen signals from the pool."""
from __future__ import annotations

import z3

from pyvc import types as ty
from pyvc.contract import Contract
from spec import ops
from spec.ops import And, Implies, Not, Or, at, length

SA = "dsl_compiler/src/layout/signal_analyzer.py::SignalAnalyzer."
_T = {"_available_signal_pool": ty.TList(ty.Str), "_signal_pool_index": ty.Int, "_warned_signal_reuse": ty.Bool,
      "_allocated_signals": ty.TSet(ty.Str), "diagnostics": ty.TOpaque("diag")}


def _post(a, res):
    pool = a.old.self._available_signal_pool
    i0 = a.old.self._signal_pool_index
    n = length(pool)
    return And(
        Implies(n == 0, res == "signal-0"),
        # fresh until exhaustion: the element at the old cursor, cursor advanced by one
        Implies(And(n > 0, i0 < n), And(res == at(pool, i0), a.self._signal_pool_index == i0 + 1)),
        # wrap-around only after the warning flag is set
        Implies(And(n > 0, i0 >= n), And(res == at(pool, 0), a.self._signal_pool_index == 1, a.self._warned_signal_reuse)),
        # the result is always a pool element (or the documented fall-back)
        Implies(n > 0, z3.Exists([_K], And(_K >= 0, _K < n, res == at(pool, _K)))),
        Implies(n > 0, z3.Select(a.self._allocated_signals.member, _s(res))),
    )


_K = z3.Int("k_pool")


def _s(x):
    return z3.StringVal(x) if isinstance(x, str) else x

allocate = Contract(
    qualname=SA + "_allocate_factorio_virtual_signal",
    params={"self": ty.TObj("SignalAnalyzer", only=("SignalAnalyzer",))},
    requires=[("cursor is a natural number", lambda a: a.self._signal_pool_index >= 0),
              ("pool and flags exist", lambda a: And(length(a.self._available_signal_pool) >= 0,
                                                   Or(a.self._warned_signal_reuse, Not(a.self._warned_signal_reuse)),
                                                   a.self._allocated_signals is not None))],
    ensures=[("returns pool[cursor] and advances; wraps only after warning; result recorded as allocated", _post)],
    dynamic_types={"self": _T},
    uses={"opaque.info": "skip", "opaque.warning": "skip"},
    properties=("C13", "C12"),
    min_obligations=3,
)

CONTRACTS = [allocate]


# =================================================================================================
# SignalAnalyzer._reserve_explicit_signal_names: every signal name that occurs anywhere in the IR — a node's own
# type, a member of a constant bundle, the type of any operand reference at any nesting depth (condition rows,
# merge sources, latch conditions, entity properties, inlined bundle conditions) — leaves the allocation pool.
# The function reflects over vars(node) (outside the symbolic executor's subset), so the contract's executable twin is
# evaluated on the REAL function for one node of every kind x every reference-carrying position: bounded.
# =================================================================================================
def _names_in(obj, out, depth=0):
    """oracle: all explicit signal names reachable from an IR node (independent of the implementation's traversal)"""
    from dsl_compiler.src.ir.nodes import BundleRef, SignalRef
    if depth > 6:
        return
    if isinstance(obj, SignalRef):
        out.add(str(obj.signal_type))
    elif isinstance(obj, BundleRef):
        out.update(str(t) for t in obj.signal_types)
    elif isinstance(obj, dict):
        for v in obj.values():
            _names_in(v, out, depth + 1)
    elif isinstance(obj, (list, tuple, set)):
        for v in obj:
            _names_in(v, out, depth + 1)
    elif hasattr(obj, "__dict__") and type(obj).__module__.startswith("dsl_compiler"):
        for k, v in vars(obj).items():
            if k in ("source_ast", "debug_metadata"):
                continue
            if k in ("output_type", "signal_type") and isinstance(v, str):
                out.add(v)
            elif k == "signals" and isinstance(v, dict):
                out.update(str(x) for x in v)
            else:
                _names_in(v, out, depth + 1)


def _reserve_post(a, res):
    want = set()
    for op in a.ir_operations:
        _names_in(op, want)
    want = {n for n in want if not n.startswith("__")}
    pool = set(a.self._available_signal_pool)
    return not (want & pool) and want <= set(a.self._allocated_signals)


reserve = Contract(
    qualname=SA + "_reserve_explicit_signal_names",
    params={"self": ty.TOpaque("analyzer"), "ir_operations": ty.TOpaque("ops")},
    ensures=[("no explicit signal name of the IR stays in the allocation pool", _reserve_post)],
    verify=False, properties=("C13",), note="evaluated on the real function over one node of every kind x reference position (bounded stand-in)")
CONTRACTS = [allocate, reserve] if "allocate" in globals() else [reserve]


def reserve_arg_sets():
    from dsl_compiler.src.common.diagnostics import ProgramDiagnostics
    from dsl_compiler.src.ir import nodes as N
    from dsl_compiler.src.layout.signal_analyzer import SignalAnalyzer

    def ref(name):
        return N.SignalRef(name, "src_" + name)

    def analyzer():
        return SignalAnalyzer(ProgramDiagnostics(log_level="error"), {})
    cases = []
    names = ["signal-A", "signal-B", "signal-C", "signal-D", "signal-E"]

    def add(node):
        cases.append({"self": analyzer(), "ir_operations": [node]})
    c = N.IRConst("c1", "signal-A"); add(c)
    c = N.IRConst("c2", "__bundle"); c.signals = {"signal-B": 3, "signal-C": 4}; add(c)
    x = N.IRArith("a1", "signal-A"); x.left, x.right = ref("signal-B"), ref("signal-C"); add(x)
    x = N.IRArith("a2", "signal-each"); x.left = N.BundleRef({"signal-D", "signal-E"}, "b"); x.right = 2; add(x)
    d = N.IRDecider("d1", "signal-A"); d.left, d.right, d.output_value = ref("signal-B"), ref("signal-C"), ref("signal-D"); add(d)
    d = N.IRDecider("d2", "signal-A")
    d.conditions = [N.DeciderCondition(comparator=">", first_operand=ref("signal-B"), second_operand=3),
                    N.DeciderCondition(comparator="<", compare_type="and", first_operand=4, second_operand=ref("signal-C"))]
    add(d)
    m = N.IRWireMerge("m1", "signal-A"); m.sources = [ref("signal-A"), ref("signal-B")]; add(m)
    add(N.IRMemCreate("mem1", "signal-C", None))
    add(N.IRMemWrite("mem1", ref("signal-D"), ref("signal-W"), None))
    add(N.IRLatchWrite("mem2", ref("signal-A"), ref("signal-B"), ref("signal-C"), N.MEMORY_TYPE_SR_LATCH, None,
                       set_condition=(ref("signal-D"), "<", 3), reset_condition=(ref("signal-E"), ">", 9)))
    add(N.IRPlaceEntity("e1", "small-lamp", ref("signal-A"), 2, {"p": ref("signal-B"), "nested": {"q": [ref("signal-C")]}}))
    w = N.IREntityPropWrite("e1", "enable", ref("signal-D")); w.inline_bundle_condition = {"signal": "signal-everything", "operator": "<", "constant": 0,
                                                                                       "input_source": N.BundleRef({"signal-E"}, "bb")}
    add(w)
    add(N.IRMemRead("r1", "signal-B"))
    return cases


# =================================================================================================
# SignalAnalyzer._build_available_signal_pool: the pool never contains the reserved write-enable signal, a wildcard, a
# signal already allocated / mapped, or a name the program references — and contains every other virtual signal once.
# The reserved and wildcard names are stated HERE (Factorio's signal-each / -anything / -everything; the compiler's
# signal-W), not read from the compiler's tables.  Evaluated on the real method over enumerated analyser states: bounded.
# =================================================================================================
_NEVER = {"signal-W", "signal-each", "signal-anything", "signal-everything"}


def _pool_post(a, res):
    me = a.self
    pool = list(res)
    banned = _NEVER | set(me._allocated_signals) | set(me.referenced_signal_names)
    if any(s in banned for s in pool) or len(pool) != len(set(pool)):
        return False
    from dsl_compiler.src.layout import signal_analyzer as _sa
    universe = [s for s in _sa.AVAILABLE_VIRTUAL_SIGNALS]
    return set(pool) == {s for s in universe if s not in banned}


pool_contract = Contract(qualname=SA + "_build_available_signal_pool", params={"self": ty.TOpaque("analyzer")},
                         ensures=[("the pool = the virtual signals minus reserved, wildcards, allocated and referenced names, without repetition", _pool_post)],
                         verify=False, properties=("C13",), note="evaluated on the real method over enumerated analyser states (bounded stand-in)")
CONTRACTS.append(pool_contract)


def pool_arg_sets():
    from dsl_compiler.src.common.diagnostics import ProgramDiagnostics
    from dsl_compiler.src.layout.signal_analyzer import SignalAnalyzer
    out = []
    for allocated in (set(), {"signal-A"}, {"signal-A", "signal-Z", "signal-W"}):
        for referenced in (set(), {"signal-B"}, {"x", "signal-C", "signal-each"}):
            for tmap in ({}, {"__v1": {"name": "signal-D", "type": "virtual"}, "signal-E": "signal-E"}):
                an = SignalAnalyzer(ProgramDiagnostics(log_level="error"), dict(tmap), referenced_signal_names=set(referenced))
                an._allocated_signals |= set(allocated)
                out.append({"self": an})
    return out


# =================================================================================================
# ExpressionLowerer._try_fold_projection_into_source (C13, C01): `expr | "signal-T"` may retype the node that computes expr
# instead of adding a combinator.  Then the target signal is IN USE from that moment: it must be recorded in the signal
# type map (the allocator excludes exactly the recorded names when it later picks signals for untyped values), the node
# must output on the target signal, and the reference returned must be to the same node with the target type.  Folding is
# allowed only for arithmetic nodes and constant-output deciders that are not declared and not bound to a variable; in
# every other case nothing may change.  Scenarios: 0..2 variables in scope (bounded), everything else symbolic.
# =================================================================================================
from pyvc.ghost import ghost as _ghost13, isa as _isa13  # noqa: E402
from pyvc.values import SObj as _SObj13  # noqa: E402
from spec.ops import And as _And13, Not as _Not13, Implies as _Imp13  # noqa: E402

ELQ13 = "dsl_compiler/src/lowering/expression_lowerer.py::ExpressionLowerer."
_OPQ13 = ty.TOpaque("x")
_NODE13 = ty.TOpt(ty.TObj("IRNode", only=("IRArith", "IRDecider", "IRConst", "IRMemRead"), ftypes=(
    ("output_type", ty.Str), ("copy_count_from_input", ty.Bool), ("debug_metadata", ty.TRecord((("user_declared", ty.Bool),))))))
_REF13 = ty.TObj("SignalRef", only=("SignalRef",))
REG13 = []


def _get_op13(ex, a):
    return _ghost13(ex.args_ns.source_ref, "node", _NODE13)


def _ensure13(ex, a):
    REG13.append((a.signal_key, a.signal_type))
    return None


def _fold_post13(n_names):
    def post(a, res):
        ref = a.source_ref
        node = ref._fields.get("@node")
        tmap, old_map = a.self.ir_builder.signal_type_map, a.old.self.ir_builder.signal_type_map
        k = z3.String("any_key")
        if res is None:
            if REG13:
                return False
            cs = [z3.ForAll([k], _And13(z3.Select(tmap.present, k) == z3.Select(old_map.present, k), z3.Select(tmap.vals, k) == z3.Select(old_map.vals, k)))]
            if node is not None:
                from pyvc.values import OldView
                cs.append(node.output_type == OldView(node, {}).output_type)
            return _And13(*cs)
        if node is None:
            return False
        named = [r for r in a.self.parent.signal_refs.values() if isinstance(r, _SObj13)]
        cs = [_isa13(node, "IRArith") or _isa13(node, "IRDecider"),
              _Not13(node.debug_metadata["user_declared"]),
              node.output_type == a.target_type,
              z3.Select(tmap.present, a.target_type), z3.Select(tmap.vals, a.target_type) == a.target_type,
              res.signal_type == a.target_type, res.source_id == ref.source_id, res is not ref]
        if _isa13(node, "IRDecider"):
            cs.append(_Not13(node.copy_count_from_input))
        cs += [r.source_id != ref.source_id for r in named]
        # nothing else leaves the map except the implicit placeholder the node had before
        cs.append(z3.ForAll([k], _Imp13(_And13(z3.Select(old_map.present, k), _Not13(z3.PrefixOf(z3.StringVal("__implicit_"), k))), z3.Select(tmap.present, k))))
        return _And13(*[c if not isinstance(c, bool) else z3.BoolVal(c) for c in cs])
    return post


for _n in (0, 1, 2):
    _names = {f"v{i}": _SObj13(["SignalRef"], f"named{i}", lazy=True, field_types={"source_id": ty.Str, "signal_type": ty.Str}) for i in range(_n)}
    CONTRACTS.append(Contract(
        qualname=ELQ13 + "_try_fold_projection_into_source",
        params={"self": ty.TObj("ExpressionLowerer", only=("ExpressionLowerer",)), "source_ref": _REF13, "target_type": ty.Str, "proj_expr": ty.TObj("ProjectionExpr", only=("ProjectionExpr",))},
        requires=[("(reset capture)", lambda a: REG13.clear() or True)],
        ensures=[("folded only for unnamed arithmetic / constant-output decider nodes, and then the target signal is recorded as in use; otherwise nothing changes", _fold_post13(_n))],
        uses={"IRBuilder.get_operation": Contract(qualname="dsl_compiler/src/ir/builder.py::IRBuilder.get_operation", params={"self": _OPQ13, "node_id": _OPQ13}, effect=_get_op13,
                                                  verify=False, note="dictionary lookup: the producer node of the reference"),
              "ASTLowerer.ensure_signal_registered": Contract(qualname="dsl_compiler/src/lowering/lowerer.py::ASTLowerer.ensure_signal_registered",
                                                          params={"self": _OPQ13, "signal_key": _OPQ13, "signal_type": _OPQ13}, defaults={"signal_type": None},
                                                          effect=_ensure13, verify=False, note="registers the name with the signal registry (C13 pool box)"),
              "ExpressionLowerer._attach_expr_context": "skip"},
        dynamic_types={"self": {"ir_builder": ty.TObj("IRBuilder", only=("IRBuilder",)), "parent": ty.TObj("ASTLowerer", only=("ASTLowerer",)), "diagnostics": ty.TOpaque("diag")},
                       "self.ir_builder": {"signal_type_map": ty.TDict(ty.Str, ty.Str)}, "self.parent": {"signal_refs": ty.TConcrete(_names)},
                       "source_ref": {"debug_label": ty.TOpt(ty.Str), "debug_metadata": ty.TConcrete({}), "source_ast": ty.TConcrete(None)}},
        properties=("C13", "C01"), min_obligations=2, no_replay=True, note=f"{_n} variables in scope"))


# =================================================================================================
# SignalAnalyzer._resolve_signal_identity — which game signal a value travels on:
#   a value with a declared / explicit type keeps EXACTLY that signal (mapped names through the program's own map);
#   an untyped value (implicit type __vN) gets the name its type is already mapped to, or else a FRESH signal from the allocator
#   (contract above), and the mapping is recorded — so every value of one implicit type is on one signal and two different implicit
#   types are never on the same one, nor on a signal the program names or has mapped;
#   a resolved entry is not resolved again (unless forced).
# Evaluated on the REAL method (real SignalAnalyzer built by its constructor) over an enumerated box: bounded.
# =================================================================================================
RSQ = "dsl_compiler/src/layout/signal_analyzer.py::SignalAnalyzer._resolve_signal_identity"


def _resolve_post(a, res):
    me = a.self
    sc = me._scenario
    e = a.entry
    kind = sc["kind"]
    name = e.resolved_signal_name
    if kind == "already":
        return name == "signal-Q"
    if kind == "explicit":
        # (the internal category string of items / fluids is not used for the emitted signal dictionaries, which go by name)
        return name == sc["type"] and (sc["category"] != "virtual" or e.resolved_signal_type == "virtual")
    if kind == "mapped-implicit":
        return name == "signal-D" and e.resolved_signal_type == "virtual"
    # fresh implicit: a virtual signal that nobody uses, recorded for the type, and stable / distinct on the next resolutions
    from dsl_compiler.src.layout.signal_analyzer import SignalUsageEntry
    taken = set(sc["taken"])
    ok = [name not in taken, name is not None and name.startswith("signal-"), name not in ("signal-W", "signal-each", "signal-everything", "signal-anything"),
          me.signal_type_map.get(sc["type"]) == {"name": name, "type": "virtual"}]
    again = SignalUsageEntry(signal_id="again", signal_type=sc["type"])
    me._resolve_signal_identity(again)
    other = SignalUsageEntry(signal_id="other", signal_type="__v77")
    me._resolve_signal_identity(other)
    ok += [again.resolved_signal_name == name, other.resolved_signal_name != name, other.resolved_signal_name not in taken]
    return all(ok)


resolve_identity = Contract(qualname=RSQ, params={"self": ty.TOpaque("analyzer"), "entry": ty.TOpaque("entry")},
                            ensures=[("explicit types keep their signal; one implicit type = one fresh signal, different types different signals, never a signal in use", _resolve_post)],
                            verify=False, properties=("C13", "C12", "C01"), note="evaluated on the real method over an enumerated box (bounded stand-in)")
CONTRACTS.append(resolve_identity)


def resolve_identity_arg_sets():
    from dsl_compiler.src.common.diagnostics import ProgramDiagnostics
    from dsl_compiler.src.layout.signal_analyzer import SignalAnalyzer, SignalUsageEntry
    out = []
    maps = ({}, {"__v1": {"name": "signal-D", "type": "virtual"}, "signal-E": "signal-E"}, {"__v1": {"name": "signal-D", "type": "virtual"}, "__v2": {"name": "signal-A", "type": "virtual"}})
    for tmap in maps:
        for referenced in (set(), {"signal-B", "signal-C"}):
            taken = {m["name"] if isinstance(m, dict) else m for m in tmap.values()} | set(referenced)
            cases = [("already", None, None), ("explicit", "signal-X", "virtual"), ("explicit", "iron-plate", "item"), ("explicit", "water", "fluid"), ("fresh", "__v9", None)]
            if "__v1" in tmap:
                cases.append(("mapped-implicit", "__v1", None))
            for kind, t, cat in cases:
                for via_literal in (False, True):
                    an = SignalAnalyzer(ProgramDiagnostics(log_level="error"), {k: (dict(v) if isinstance(v, dict) else v) for k, v in tmap.items()}, referenced_signal_names=set(referenced))
                    e = SignalUsageEntry(signal_id="n1")
                    if kind == "already":
                        e.resolved_signal_name, e.signal_type = "signal-Q", "signal-X"
                    elif via_literal and kind == "explicit":
                        e.literal_declared_type, e.signal_type = t, ("__v1" if "__v1" in tmap else "__v5")  # the declared type wins over the value's own implicit type
                    else:
                        e.signal_type = t
                    if via_literal and kind != "explicit":
                        e.debug_label = "some_name"
                    an._scenario = {"kind": kind, "type": t, "category": cat, "taken": sorted(taken)}
                    out.append({"self": an, "entry": e})
    return out


# =================================================================================================
# SignalAnalyzer.resolve_signal_name / get_signal_name / can_inline_constant / inline_value (the names a producer WRITES and a
# consumer READS are computed by the same function, so they agree iff it is stable):
#   resolve_signal_name(t, entry)  an explicit game / `signal-` name is returned as it is (whatever the entry says: a member selected
#                                  from a bundle keeps its own name); otherwise the entry's resolved name; otherwise the program's
#                                  mapping; an unmapped implicit type gets a fresh signal ONCE — every later call returns the same one
#   get_signal_name(operand)       an integer reads signal-0; a reference resolves through its producer's entry
#   inline_value(ref)              the literal of an unmaterialised constant producer, None for everything else
# Evaluated on the REAL methods over an enumerated box: bounded.
# =================================================================================================
RNQ = "dsl_compiler/src/layout/signal_analyzer.py::SignalAnalyzer.resolve_signal_name"
IVQ = "dsl_compiler/src/layout/signal_analyzer.py::SignalAnalyzer.inline_value"


def _rn_post(a, res):
    me, sc = a.self, a.self._scenario
    t, e = a.signal_type, a.entry
    again = me.resolve_signal_name(t, e)
    if again != res:
        return False            # stable
    if sc["want"] is not None:
        return res == sc["want"]
    # fresh implicit: a virtual signal nobody uses
    return res not in sc["taken"] and res.startswith("signal-") and res not in ("signal-W", "signal-each", "signal-everything", "signal-anything") \
        and me.resolve_signal_name("__v88", None) != res


resolve_name = Contract(qualname=RNQ, params={"self": ty.TOpaque("analyzer"), "signal_type": ty.TOpaque("t"), "entry": ty.TOpaque("entry")},
                        ensures=[("explicit names as they are; else the entry's name; else the mapping; an implicit type gets ONE fresh signal (stable across calls)", _rn_post)],
                        verify=False, properties=("C13", "C01", "C12"), note="evaluated on the real method over an enumerated box (bounded stand-in)")


def resolve_name_arg_sets():
    from dsl_compiler.src.common.diagnostics import ProgramDiagnostics
    from dsl_compiler.src.layout.signal_analyzer import SignalAnalyzer, SignalUsageEntry
    out = []
    tmap0 = {"__v1": {"name": "signal-D", "type": "virtual"}, "alias": "signal-E"}
    for tmap in ({}, tmap0):
        taken = {"signal-D", "signal-E"} if tmap else set()
        cases = [("signal-A", None, "signal-A"), ("iron-plate", None, "iron-plate"), ("signal-A", "signal-each", "signal-A"), ("__v7", "signal-Q", "signal-Q"),
                 (None, "signal-Q", "signal-Q"), (None, None, "signal-0"), ("__v9", None, None)]
        if tmap:
            cases += [("__v1", None, "signal-D"), ("alias", None, "signal-E")]
        for t, entry_name, want in cases:
            an = SignalAnalyzer(ProgramDiagnostics(log_level="error"), {k: (dict(v) if isinstance(v, dict) else v) for k, v in tmap.items()})
            e = None
            if entry_name is not None:
                e = SignalUsageEntry(signal_id="n")
                e.resolved_signal_name = entry_name
            an._scenario = {"want": want, "taken": taken}
            out.append({"self": an, "signal_type": t, "entry": e})
    return out


def _iv_post(a, res):
    sc = a.self._scenario
    return res == sc["want"] and a.self.can_inline_constant(a.signal_ref) == (sc["want"] is not None)


inline_value_c = Contract(qualname=IVQ, params={"self": ty.TOpaque("analyzer"), "signal_ref": ty.TOpaque("ref")},
                          ensures=[("the literal of an unmaterialised constant producer; None for a materialised one, a non-constant producer, an unknown reference", _iv_post)],
                          verify=False, properties=("C01", "C02", "C20"), note="evaluated on the real method over an enumerated box (bounded stand-in)")
CONTRACTS += [resolve_name, inline_value_c]


def inline_value_arg_sets():
    from dsl_compiler.src.common.diagnostics import ProgramDiagnostics
    from dsl_compiler.src.ir import nodes as N
    from dsl_compiler.src.layout.signal_analyzer import SignalAnalyzer, SignalUsageEntry
    out = []
    for kind, mat, lit in [(k, m, l) for k in ("const", "arith", "none", "absent") for m in (False, True) for l in (None, 0, 7, -3)]:
        an = SignalAnalyzer(ProgramDiagnostics(log_level="error"), {})
        if kind != "absent":
            e = SignalUsageEntry(signal_id="n")
            e.producer = {"const": N.IRConst("n", "signal-A"), "arith": N.IRArith("n", "signal-A"), "none": None}[kind]
            e.should_materialize, e.literal_value = mat, lit
            an.signal_usage["n"] = e
        want = lit if (kind == "const" and not mat and lit is not None) else None
        an._scenario = {"want": want}
        out.append({"self": an, "signal_ref": N.SignalRef("signal-A", "n")})
    return out


# =================================================================================================
# SignalAnalyzer.analyze — who reads what (C13 / C03 / C06 / C20): for every IR node, each reference among its operands names the node
# as a CONSUMER of the reference's producer; values a gate or an entity reads FROM A WIRE — the data and the enable of a memory write,
# the value of an entity property — are also EXPORTS, so an anonymous constant there exists as a combinator (a constant that only
# feeds combinator operands is inlined and has none); a named value nothing reads is an output.
# Evaluated on the REAL method over an enumerated box (one consumer node of every kind over anonymous / declared constants): bounded.
# =================================================================================================
ANQ = "dsl_compiler/src/layout/signal_analyzer.py::SignalAnalyzer.analyze"


def _analyze_post(a, res):
    sc = a.self._scenario
    ok = []
    for src, want in sc["consumers"].items():
        ok.append(src in res and set(res[src].consumers) == set(want))
    for src, exported in sc["exported"].items():
        ok.append(bool(res[src].export_targets) == exported)
    for src, mat in sc["materialised"].items():
        ok.append(res[src].should_materialize is mat)
    return all(ok)


analyze_c = Contract(qualname=ANQ, params={"self": ty.TOpaque("analyzer"), "ir_operations": ty.TOpaque("ir")},
                     ensures=[("every operand reference makes its node a consumer; what is read from a wire (write data, write enable, entity property) is exported and so materialised; "
                               "an anonymous constant that only feeds combinator operands is inlined", _analyze_post)],
                     verify=False, properties=("C13", "C03", "C06"), note="evaluated on the real method over an enumerated box (bounded stand-in)")
CONTRACTS.append(analyze_c)


def analyze_arg_sets():
    from dsl_compiler.src.common.diagnostics import ProgramDiagnostics
    from dsl_compiler.src.ir.nodes import IRArith, IRConst, IRDecider, IREntityPropWrite, IRMemWrite, IRWireMerge, SignalRef
    from dsl_compiler.src.layout.signal_analyzer import SignalAnalyzer
    out = []

    def const(nid, t, v, declared):
        c = IRConst(nid, t)
        c.value = v
        if declared:
            c.debug_metadata["user_declared"] = True
            c.debug_label = "named"
        return c

    for declared in (False, True):
        for kind in ("arith", "decider", "merge", "write-data", "write-enable", "write-both", "entity-enable", "entity-other", "two-consumers"):
            a_, b_ = const("c_a", "signal-A", 5, declared), const("c_b", "signal-W" if kind.startswith("write") else "signal-B", 1, declared)
            ra, rb = SignalRef("signal-A", "c_a"), SignalRef(b_.output_type, "c_b")
            ops_ = [a_, b_]
            cons = {"c_a": set(), "c_b": set()}
            exp = {"c_a": False, "c_b": False}
            if kind in ("arith", "two-consumers"):
                n = IRArith("n1", "signal-C")
                n.op, n.left, n.right = "+", ra, rb
                ops_.append(n)
                cons["c_a"].add("n1"), cons["c_b"].add("n1")
                if kind == "two-consumers":
                    w = IREntityPropWrite("lamp", "enable", rb)
                    ops_.append(w)
                    cons["c_b"].add(w.node_id)
                    exp["c_b"] = True
            elif kind == "decider":
                n = IRDecider("n1", "signal-C")
                n.test_op, n.left, n.right, n.output_value = ">", ra, rb, 1
                ops_.append(n)
                cons["c_a"].add("n1"), cons["c_b"].add("n1")
            elif kind == "merge":
                n = IRWireMerge("n1", "signal-A")
                n.add_source(ra), n.add_source(rb)
                ops_.append(n)
                cons["c_a"].add("n1"), cons["c_b"].add("n1")
            elif kind.startswith("write"):
                data = ra if kind in ("write-data", "write-both") else SignalRef("signal-A", "elsewhere")
                enable = rb if kind in ("write-enable", "write-both") else SignalRef("signal-W", "elsewhere_w")
                n = IRMemWrite("mem_m", data, enable)
                ops_.append(n)
                if data is ra:
                    cons["c_a"].add(n.node_id)
                    exp["c_a"] = True
                if enable is rb:
                    cons["c_b"].add(n.node_id)
                    exp["c_b"] = True
            else:
                n = IREntityPropWrite("lamp", "enable" if kind == "entity-enable" else "recipe", ra)
                ops_.append(n)
                cons["c_a"].add(n.node_id)
                exp["c_a"] = True
            an = SignalAnalyzer(ProgramDiagnostics(log_level="error"), {}, referenced_signal_names=set())
            # materialised: declared constants always; anonymous ones when exported or read by nobody
            mat = {k: (declared or exp[k] or not cons[k]) for k in cons}
            an._scenario = {"kind": kind, "declared": declared, "consumers": cons, "exported": exp, "materialised": mat}
            out.append({"self": an, "ir_operations": ops_})
    return out
