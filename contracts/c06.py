"""C06 contracts: a comparison is inlined into an entity only when that is the source comparison and
nothing else reads it."""
from __future__ import annotations

import z3

from pyvc import types as ty
from pyvc.contract import Contract
from pyvc.values import SObj
from spec.ops import And, Implies, Not, Or, length

EP = "dsl_compiler/src/layout/entity_placer.py::EntityPlacer."
_OPQ = ty.TOpaque("x")
_SCALAR = ty.TUnion((ty.Int, ty.Str))
_PROPS = ty.TRecord((("left_operand", _SCALAR), ("right_operand", _SCALAR), ("operation", ty.Str), ("output_value", _SCALAR)))
_PLACEMENT = ty.TObj("EntityPlacement", only=("EntityPlacement",), ftypes=(("properties", _PROPS), ("entity_type", ty.Str)))
_USAGE = ty.TObj("SignalUsageEntry", only=("SignalUsageEntry",), ftypes=(("consumers", ty.TList(ty.Str)),))

iter_sinks = Contract(qualname="dsl_compiler/src/layout/signal_graph.py::SignalGraph.iter_sinks", params={"self": _OPQ, "signal_id": ty.Str},
                      returns=ty.TList(ty.Str), verify=False, note="snapshot list of the sinks registered so far")


def _post(a, res):
    if res is None:
        return True
    placement = a.self.plan.entity_placements.lookups[-1][1]
    props = placement.properties
    sinks_ok = True
    usage_l = a.self.signal_usage.lookups
    usage = usage_l[-1][1] if usage_l else None
    cons_ok = True if usage is None else length(usage.consumers) <= 1
    right, ov = props["right_operand"], props["output_value"]
    from spec import ops
    return And(
        placement.entity_type == "decider-combinator",
        not isinstance(right, str) and not (ops.is_sym(right) and z3.is_string(right)),   # the constant is an int
        (not isinstance(ov, str)) and not (ops.is_sym(ov) and z3.is_string(ov)) and ov == 1,  # plain comparison: output constant 1
        cons_ok,
        res["left_signal"] is props["left_operand"], res["comparator"] is props["operation"], res["right_constant"] is right,
        res["signal_type"] is a.signal_ref.signal_type,
    )


try_inline = Contract(
    qualname=EP + "_try_inline_comparison",
    params={"self": ty.TObj("EntityPlacer", only=("EntityPlacer",)), "signal_ref": ty.TObj("SignalRef", only=("SignalRef",))},
    ensures=[("inlines only `signal CMP int-constant -> 1` deciders with at most one consumer, and returns that comparison", _post)],
    uses={"LayoutPlan.get_placement": "inline", "SignalGraph.iter_sinks": iter_sinks},
    dynamic_types={
        "self": {"plan": ty.TObj("LayoutPlan", only=("LayoutPlan",)), "signal_graph": ty.TObj("SignalGraph", only=("SignalGraph",)),
                 "signal_usage": ty.TObjMap(ty.Str, _USAGE)},
        "self.plan": {"entity_placements": ty.TObjMap(ty.Str, _PLACEMENT)},
    },
    properties=("C06",), min_obligations=2,
)

CONTRACTS = [try_inline, iter_sinks]


# =================================================================================================
# PlanEntityEmitter._apply_property_writes (K8 for entity conditions): whatever kind of entity it is — one with an
# enable flag and a condition setter (lamp, inserter), one with a condition setter only (power switch, pump), one with a
# bare control_behavior dict — the circuit condition written means `enable > 0`:
#   type signal              ->  <the signal's resolved name>  >  0
#   type inline_comparison   ->  <left signal>  CMP  <constant>      (exactly the inlined comparison)
#   type inline_bundle_condition -> signal-everything / signal-anything  CMP  <constant>
# and the entity is switched to circuit control.  Evaluated on the REAL method with recording stand-ins for the
# draftsman entity classes (third-party; their setters are assumed to store their arguments): bounded.
# =================================================================================================
PEQ = "dsl_compiler/src/emission/entity_emitter.py::PlanEntityEmitter._apply_property_writes"


class _EntFull:
    def __init__(self):
        self.circuit_enabled = False
        self.cond = None

    def set_circuit_condition(self, sig, cmp_, const):
        self.cond = (sig, cmp_, const)


class _EntSetterOnly:
    def __init__(self):
        self.cond = None

    def set_circuit_condition(self, sig, cmp_, const):
        self.cond = (sig, cmp_, const)


class _EntBare:
    pass


def _condition_of(ent):
    if hasattr(ent, "set_circuit_condition"):
        # a draftsman entity with a condition setter exports ONLY what went through the setter (an ad-hoc control_behavior
        # attribute is not part of its export format)
        if ent.cond is None:
            return None
        sig, c, k = ent.cond
        return (sig.get("name") if isinstance(sig, dict) else sig), c, k, (getattr(ent, "circuit_enabled", True) is True)
    cb = getattr(ent, "control_behavior", None)
    if isinstance(cb, dict) and "circuit_condition" in cb:
        cc = cb["circuit_condition"]
        return cc["first_signal"]["name"], cc["comparator"], cc["constant"], cb.get("circuit_enabled") is True
    return None


def _apw_post(a, res):
    data = a.property_writes["enable"]
    got = _condition_of(a.entity)
    if got is None:
        return False
    name, cmp_, const, enabled = got
    if data["type"] == "signal":
        want = (data["_spec_expected_name"], ">", 0)
    elif data["type"] == "inline_comparison":
        cd = data["comparison_data"]
        want = (cd["left_signal"], cd["comparator"], cd["right_constant"])
    else:
        want = (data["signal"], data["operator"], data["constant"])
    return (name, cmp_, const) == want and enabled


apply_writes = Contract(qualname=PEQ, params={"self": ty.TOpaque("emitter"), "entity": ty.TOpaque("entity"), "property_writes": ty.TOpaque("writes"),
                                              "placement": ty.TOpaque("placement")},
                        ensures=[("the condition written is the placement's comparison (signal > 0 / inlined comparison / bundle condition) and circuit control is on", _apw_post)],
                        verify=False, properties=("C06",), note="evaluated on the real method with recording entity stand-ins (bounded stand-in)")
CONTRACTS.append(apply_writes)


def apply_writes_arg_sets():
    from dsl_compiler.src.common.diagnostics import ProgramDiagnostics
    from dsl_compiler.src.emission.entity_emitter import PlanEntityEmitter
    from dsl_compiler.src.ir.nodes import SignalRef
    out = []
    maps = [({"__v1": {"name": "signal-C", "type": "virtual"}}, "__v1", "signal-C"), ({"signal-A": "signal-A"}, "signal-A", "signal-A"), ({}, "iron-plate", "iron-plate")]
    for ent_cls in (_EntFull, _EntSetterOnly, _EntBare):
        for m, key, name in maps:
            out.append({"m": m, "ent": ent_cls, "writes": {"enable": {"type": "signal", "signal_ref": SignalRef(key, "src"), "_spec_expected_name": name}}, "name": name})
        for cmp_ in ("<", "<=", ">", ">=", "=", "!="):
            for k in (-3, 0, 7):
                out.append({"m": {}, "ent": ent_cls, "writes": {"enable": {"type": "inline_comparison", "comparison_data": {"left_signal": "signal-A", "comparator": cmp_, "right_constant": k}}}, "name": None})
        for sig in ("signal-everything", "signal-anything"):
            out.append({"m": {}, "ent": ent_cls, "writes": {"enable": {"type": "inline_bundle_condition", "signal": sig, "operator": "<", "constant": 0}}, "name": None})
    cases = []
    for c in out:
        em = PlanEntityEmitter(ProgramDiagnostics(log_level="error"), c["m"])
        cases.append({"self": em, "entity": c["ent"](), "property_writes": c["writes"], "placement": None})
    return cases


# =================================================================================================
# ExpressionLowerer._is_simple_source_ref (what may become a member of a wire merge): only a reference whose producer node
# IS one physical source — a constant, an entity property read, an existing merge.  A `.output` read of an entity is NOT
# such a node (every read creates a fresh node for the same chest, so the merge's "distinct node ids" test cannot see that
# one chest is wired twice); arithmetic / decider results are not merged either (they keep their combinator).
# =================================================================================================
ELQ = "dsl_compiler/src/lowering/expression_lowerer.py::ExpressionLowerer."
_PRODUCERS = ("IRConst", "IREntityPropRead", "IRWireMerge", "IREntityOutput", "IRArith", "IRDecider", "IRMemRead")
_MERGEABLE = {"IRConst", "IREntityPropRead", "IRWireMerge"}


def _simple_contract(kind):
    def get_op(ex, a):
        if kind is None:
            return None
        return SObj([kind], "producer", lazy=True)

    def post(a, res):
        return (res is True or res == True) if kind in _MERGEABLE else (res is False or res == False)  # noqa: E712

    return Contract(
        qualname=ELQ + "_is_simple_source_ref",
        params={"self": ty.TObj("ExpressionLowerer", only=("ExpressionLowerer",)), "value_ref": ty.TUnion((ty.TObj("SignalRef", only=("SignalRef",)), ty.Int))},
        ensures=[("mergeable exactly for constants, entity property reads and merges", lambda a, res: post(a, res) if isinstance(a.value_ref, SObj) else (res is False or res == False))],  # noqa: E712
        uses={"IRBuilder.get_operation": Contract(qualname="dsl_compiler/src/ir/builder.py::IRBuilder.get_operation", params={"self": ty.TOpaque("b"), "node_id": ty.TOpaque("i")},
                                                  effect=get_op, verify=False, note="the producer node of the reference")},
        dynamic_types={"self": {"ir_builder": ty.TObj("IRBuilder", only=("IRBuilder",))}},
        properties=("C06", "C01"), min_obligations=1, no_replay=True, note=f"producer {kind}")


for _k in _PRODUCERS + (None,):
    CONTRACTS.append(_simple_contract(_k))


# =================================================================================================
# EntityPlacer._place_entity_prop_write (C06): what is recorded for `entity.prop = value` IS the value assigned.
#   bundle condition (any / all)  -> the signal, operator and constant of the condition, and the entity becomes a reader of the bundle
#   enable = <inlinable comparison> -> exactly the comparison _try_inline_comparison returned (its contract above), the comparison
#                                    node is named for removal, and the ENTITY (no longer the removed decider) becomes a reader of the
#                                    compared signal
#   any other signal / bundle     -> a reference to THAT value, and the entity becomes a reader of it
#   an integer                    -> that integer, no reader
# and nothing at all for an entity that does not exist.  Property `enable` and one other property name (bounded), values symbolic.
# =================================================================================================
PW = {}
_REFT = ty.TObj("SignalRef", only=("SignalRef",))
_INLINE = ty.TOpt(ty.TRecord((("left_signal", ty.Str), ("comparator", ty.Str), ("right_constant", ty.Int), ("signal_type", ty.Str))))


def _pw_reset(a):
    PW.clear()
    return True


def _pw_get_placement(ex, a):
    from pyvc.ghost import ghost
    op = ex.args_ns.op
    key = a.args[0]
    if key is op.entity_id:
        return ghost(op, "placement", ty.TOpt(ty.TObj("EntityPlacement", only=("EntityPlacement",), ftypes=(("properties", ty.TConcrete({})),))))
    return ghost(op, "comparison_placement", ty.TOpt(ty.TObj("EntityPlacement", only=("EntityPlacement",), ftypes=(("properties", ty.TConcrete({"debug_info": {"variable": "cmp"}})),))))


def _pw_inline(ex, a):
    from pyvc.ghost import ghost
    PW.setdefault("inline_asked", []).append(a.signal_ref)
    d = ghost(ex.args_ns.op, "inline", _INLINE)
    if d is not None and "copy" not in PW:
        PW["copy"] = dict(d)
        return PW["copy"]
    return PW.get("copy") if d is not None else None


def _pw_sink(ex, a):
    PW.setdefault("sinks", []).append((a.value_ref, a.consumer_id))
    return None


def _pw_remove(ex, a):
    PW.setdefault("removed", []).append(tuple(a.args))
    return None


def _pw_post(prop):
    def post(a, res):
        op = a.op
        placement = op._fields.get("@placement")
        sinks, removed = PW.get("sinks", []), PW.get("removed", [])
        if placement is None:
            return not sinks and not removed
        writes = placement.properties.get("property_writes")
        if not isinstance(writes, dict) or set(writes) != {prop}:
            return False
        w = writes[prop]
        cond = op.inline_bundle_condition
        v = op.value
        is_ref = isinstance(v, SObj) and "SignalRef" in v._cls_set
        kind = w.get("type")
        if cond is not None:
            src = cond.get("input_source")
            return (kind == "inline_bundle_condition" and w["signal"] is cond["signal"] and w["operator"] is cond["operator"] and w["constant"] is cond["constant"]
                    and not removed and (len(sinks) == 1 and sinks[0][0] is src and sinks[0][1] is op.entity_id if src is not None else not sinks))
        inline = op._fields.get("@inline") if (is_ref and prop == "enable") else None
        if inline is not None:
            data = w.get("comparison_data")
            if kind != "inline_comparison" or data is not PW.get("copy") or data.get("source_node_id_to_remove") is not v.source_id:
                return False
            nodes = a.self._ir_nodes.lookups
            node = nodes[-1][1] if nodes else None
            from pyvc.ghost import isa
            if node is not None and isa(node, "IRDecider") is True and isinstance(node.left, SObj):
                return (len(sinks) == 1 and sinks[0][0] is node.left and sinks[0][1] is op.entity_id
                        and len(removed) == 1 and removed[0][0] is node.left.source_id and removed[0][1] is v.source_id)
            return not sinks and not removed
        if is_ref:
            return kind == "signal" and w["signal_ref"] is v and len(sinks) == 1 and sinks[0][0] is v and sinks[0][1] is op.entity_id and not removed
        if isinstance(v, SObj):
            return kind == "bundle" and w["bundle_ref"] is v and len(sinks) == 1 and sinks[0][0] is v and sinks[0][1] is op.entity_id and not removed
        return kind == "constant" and w["value"] is v and not sinks and not removed
    return post


_COND_T = ty.TRecord((("signal", ty.Str), ("operator", ty.Str), ("constant", ty.Int), ("input_source", ty.TOpt(_REFT))))
for _prop in ("enable", "recipe"):
    for _cond_name, _cond in (("no bundle condition", ty.TConcrete(None)), ("bundle condition", _COND_T)):
        CONTRACTS.append(Contract(
            qualname=EP + "_place_entity_prop_write",
            params={"self": ty.TObj("EntityPlacer", only=("EntityPlacer",)),
                    "op": ty.TObj("IREntityPropWrite", only=("IREntityPropWrite",), ftypes=(
                        ("entity_id", ty.Str), ("property_name", ty.TConcrete(_prop)), ("inline_bundle_condition", _cond),
                        ("value", ty.TUnion((ty.Int, _REFT, ty.TObj("BundleRef", only=("BundleRef",)))))))},
            requires=[("(reset capture)", _pw_reset)],
            ensures=[("the recorded write is the assigned value (bundle condition / exactly the inlined comparison / a reference to the value / the integer) and the entity reads what it needs", _pw_post(_prop))],
            uses={"opaque.get_placement": Contract(qualname="dsl_compiler/src/layout/layout_plan.py::LayoutPlan.get_placement", params={"args": _OPQ}, effect=_pw_get_placement, verify=False,
                                                   note="dictionary lookup of the placement (None when absent)"),
                  "EntityPlacer._try_inline_comparison": Contract(qualname=EP + "_try_inline_comparison", params={"self": _OPQ, "signal_ref": _OPQ}, effect=_pw_inline, verify=False,
                                                                  note="proved above: None, or the comparison of the single-consumer decider that produces the reference"),
                  "EntityPlacer._add_signal_sink": Contract(qualname=EP + "_add_signal_sink", params={"self": _OPQ, "value_ref": _OPQ, "consumer_id": _OPQ}, effect=_pw_sink, verify=False,
                                                            note="registers the consumer as a reader of the reference"),
                  "opaque.remove_sink": Contract(qualname="dsl_compiler/src/layout/signal_graph.py::SignalGraph.remove_sink", params={"args": _OPQ}, effect=_pw_remove, verify=False,
                                                 note="removes a reader (recorded)"),
                  "opaque.info": "skip", "opaque.warning": "skip"},
            dynamic_types={"self": {"plan": ty.TOpaque("plan"), "signal_graph": ty.TOpaque("graph"), "diagnostics": ty.TOpaque("diag"),
                                    "_ir_nodes": ty.TObjMap(ty.Str, ty.TObj("IRNode", only=("IRDecider", "IRArith"), ftypes=(("left", ty.TUnion((ty.Int, _REFT))),)))}},
            properties=("C06",), min_obligations=3, no_replay=True, note=f"{_prop}; {_cond_name}"))
