"""C06 contracts: a comparison is inlined into an entity only when that is the source comparison and
nothing else reads it."""
from __future__ import annotations

import z3

from pyvc import types as ty
from pyvc.contract import Contract
from pyvc.values import SObj
from spec.ops import And, Implies, Not, Or, length

EP = "dsl_compiler/src/layout/entity_placer.py::EntityPlacer."
_OPQ = ty.TOpaque("x")
_SCALAR = ty.TUnion((ty.Int, ty.Str))
_PROPS = ty.TRecord((("left_operand", _SCALAR), ("right_operand", _SCALAR), ("operation", ty.Str), ("output_value", _SCALAR)))
_PLACEMENT = ty.TObj("EntityPlacement", only=("EntityPlacement",), ftypes=(("properties", _PROPS), ("entity_type", ty.Str)))
_USAGE = ty.TObj("SignalUsageEntry", only=("SignalUsageEntry",), ftypes=(("consumers", ty.TList(ty.Str)),))

iter_sinks = Contract(qualname="dsl_compiler/src/layout/signal_graph.py::SignalGraph.iter_sinks", params={"self": _OPQ, "signal_id": ty.Str},
                      returns=ty.TList(ty.Str), verify=False, note="snapshot list of the sinks registered so far")


def _post(a, res):
    if res is None:
        return True
    placement = a.self.plan.entity_placements.lookups[-1][1]
    props = placement.properties
    sinks_ok = True
    usage_l = a.self.signal_usage.lookups
    usage = usage_l[-1][1] if usage_l else None
    cons_ok = True if usage is None else length(usage.consumers) <= 1
    right, ov = props["right_operand"], props["output_value"]
    from spec import ops
    return And(
        placement.entity_type == "decider-combinator",
        not isinstance(right, str) and not (ops.is_sym(right) and z3.is_string(right)),   # the constant is an int
        (not isinstance(ov, str)) and not (ops.is_sym(ov) and z3.is_string(ov)) and ov == 1,  # plain comparison: output constant 1
        cons_ok,
        res["left_signal"] is props["left_operand"], res["comparator"] is props["operation"], res["right_constant"] is right,
        res["signal_type"] is a.signal_ref.signal_type,
    )


try_inline = Contract(
    qualname=EP + "_try_inline_comparison",
    params={"self": ty.TObj("EntityPlacer", only=("EntityPlacer",)), "signal_ref": ty.TObj("SignalRef", only=("SignalRef",))},
    ensures=[("inlines only `signal CMP int-constant -> 1` deciders with at most one consumer, and returns that comparison", _post)],
    uses={"LayoutPlan.get_placement": "inline", "SignalGraph.iter_sinks": iter_sinks},
    dynamic_types={
        "self": {"plan": ty.TObj("LayoutPlan", only=("LayoutPlan",)), "signal_graph": ty.TObj("SignalGraph", only=("SignalGraph",)),
                 "signal_usage": ty.TObjMap(ty.Str, _USAGE)},
        "self.plan": {"entity_placements": ty.TObjMap(ty.Str, _PLACEMENT)},
    },
    properties=("C06",), min_obligations=2,
)

CONTRACTS = [try_inline, iter_sinks]
