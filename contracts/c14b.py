"""C14: SemanticAnalyzer.visit_DeclStmt / visit_AssignStmt — which declarations and assignments are refused.

visit_DeclStmt    `T name = expr;`   an error is recorded when (and only when) expr is a bare bundle comparison, or the value's
                  kind does not match T, or the name is already defined in this scope; a bare bundle comparison defines nothing;
                  otherwise the name is defined in the CURRENT scope with the initialiser's type (an integer initialiser of a
                  Signal becomes a signal of a fresh implicit type).
visit_AssignStmt  `name = expr;` / `entity.prop = expr;`   an error is recorded when (and only when) the name is undefined
                  (unless it is first bound by place(...)), the name is immutable and not an entity, the entity is undefined, or the
                  object is not an entity; the right-hand side is analysed in every case (its own errors are not lost)."""
from __future__ import annotations

import z3

from pyvc import types as ty
from pyvc.contract import Contract
from pyvc.ghost import ghost, isa
from pyvc.values import PyRaise, SObj, fresh_name
from spec import ops
from spec.ops import And, Implies, Not, Or

AN = "dsl_compiler/src/semantic/analyzer.py::SemanticAnalyzer."
_SYMBOL = None  # set below
_OPQ = ty.TOpaque("x")
ERR, DEFS, META, TYPED = [], [], [], []
_VT = ty.TObj("ValueInfo", only=("IntValue", "SignalValue", "BundleValue", "EntityValue", "MemoryValue"))


def _reset(a):
    ERR.clear(), DEFS.clear(), META.clear(), TYPED.clear()
    return True


def _error(ex, a):
    ERR.append(a)
    return None


def _define(ex, a):
    DEFS.append((a.self, a.symbol))
    if ex.branch(ghost(ex.args_ns.node, "redefined", ty.Bool), label="redefined"):
        raise PyRaise("SemanticError", "already defined")
    return None


def _get_type(ex, a):
    TYPED.append(a.expr)
    return ghost(a.expr, "type", _VT)


error_c = Contract(qualname="dsl_compiler/src/common/diagnostics.py::ProgramDiagnostics.error", params={"self": _OPQ, "message": _OPQ, "stage": _OPQ, "line": _OPQ, "column": _OPQ,
                                                                                                         "source_file": _OPQ, "node": _OPQ},
                   defaults={"stage": None, "line": 0, "column": 0, "source_file": None, "node": None}, effect=_error, verify=False, note="proved in contracts.c14: the error is counted (and raised)")
define_c = Contract(qualname="dsl_compiler/src/semantic/symbol_table.py::SymbolTable.define", params={"self": _OPQ, "symbol": _OPQ}, effect=_define, verify=False,
                    note="proved in contracts.c14: defines the name in THIS scope or raises SemanticError when it is already defined here")
get_type = Contract(qualname=AN + "get_expr_type", params={"self": _OPQ, "expr": _OPQ}, effect=_get_type, verify=False, note="type of the expression (records that it was analysed)")
naked = Contract(qualname=AN + "_is_naked_bundle_comparison", params={"self": _OPQ, "expr": _OPQ}, effect=lambda ex, a: ghost(a.expr, "naked", ty.Bool), verify=False,
                 note="a comparison whose left operand is a bundle (four-line test)")
matches = Contract(qualname=AN + "_value_matches_type", params={"self": _OPQ, "value_type": _OPQ, "type_name": _OPQ}, effect=lambda ex, a: ghost(ex.args_ns.node, "matches", ty.Bool),
                   verify=False, note="proved in contracts.c14 (_value_matches_type: 42 cases)")
implicit = Contract(qualname=AN + "allocate_implicit_type", params={"self": _OPQ}, effect=lambda ex, a: z3.String("fresh_implicit_type"), verify=False, note="fresh implicit type name")
meta = Contract(qualname=AN + "_register_signal_metadata", params={"self": _OPQ, "name": _OPQ, "node": _OPQ, "value_type": _OPQ, "declared_type": _OPQ}, defaults={"declared_type": None},
                effect=lambda ex, a: META.append((a.name, a.node)), verify=False, note="debug metadata of the binding (recorded)")
_SELF = ty.TObj("SemanticAnalyzer", only=("SemanticAnalyzer",))
_DYN = {"self": {"diagnostics": ty.TObj("ProgramDiagnostics", only=("ProgramDiagnostics",)), "current_scope": ty.TObj("SymbolTable", only=("SymbolTable",))}}
_USES = {"ProgramDiagnostics.error": error_c, "SymbolTable.define": define_c, "SemanticAnalyzer.get_expr_type": get_type, "SemanticAnalyzer._is_naked_bundle_comparison": naked,
         "SemanticAnalyzer._value_matches_type": matches, "SemanticAnalyzer.allocate_implicit_type": implicit, "SemanticAnalyzer._register_signal_metadata": meta,
         "SemanticAnalyzer._type_name_to_symbol_type": "skip", "SemanticAnalyzer._value_type_name": "skip", "SemanticAnalyzer._try_simplify_signal_projection": "skip"}


def _decl_post(a, res):
    node = a.node
    is_naked = node.value._fields.get("@naked")
    if is_naked is None:
        return False
    scope = a.old.self.current_scope
    scope = scope._obj if hasattr(scope, "_obj") else scope
    if "@matches" not in node._fields:
        # refused before typing: must be the bare bundle comparison; nothing defined
        return And(is_naked, len(ERR) == 1 and not DEFS and not META)
    ok_type, redefined = node._fields["@matches"], node._fields.get("@redefined")
    if len(DEFS) != 1 or DEFS[0][0] is not scope or redefined is None:
        return False
    sym = DEFS[0][1]
    vt = node.value._fields.get("@type")
    cs = [Not(is_naked), sym.name is node.name, sym.defined_at is node]
    n_err = ops.ite(ok_type, 0, 1) + ops.ite(redefined, 1, 0)
    cs.append(len(ERR) == n_err)
    if isinstance(sym.value_type, SObj) and sym.value_type is not vt:
        # wrapped: only an integer initialiser of a Signal declaration, and then on a fresh implicit type
        cs += [node.type_name == "Signal", isa(vt, "IntValue"), isa(sym.value_type, "SignalValue"), sym.value_type.signal_type == z3.String("fresh_implicit_type"),
               sym.value_type.count_expr is node.value]
    else:
        cs += [sym.value_type is vt, Not(And(node.type_name == "Signal", isa(vt, "IntValue")))]
    cs.append(Implies(Not(redefined), len(META) == 1))
    cs.append(Implies(redefined, len(META) == 0))
    return And(*[x if not isinstance(x, bool) else z3.BoolVal(x) for x in cs])


decl = Contract(
    qualname=AN + "visit_DeclStmt",
    params={"self": _SELF, "node": ty.TObj("DeclStmt", only=("DeclStmt",), ftypes=(("name", ty.Str), ("type_name", ty.Str),
                                                                                    ("value", ty.TObj("Expr", only=("BinaryOp", "IdentifierExpr", "NumberLiteral", "SignalLiteral", "BundleLiteral", "CallExpr")))))},
    requires=[("(reset capture)", _reset), ("the analyser has a current scope", lambda a: a.self.current_scope is not None)],
    ensures=[("one error per violated rule (bare bundle comparison / kind mismatch / redefinition), none otherwise; the name is defined in the current scope with the initialiser's type",
              _decl_post)],
    uses=_USES, dynamic_types=_DYN, properties=("C14",), min_obligations=4, no_replay=True)


# ---------------------------------------------------------------------------------------------------------------------
def _lookup(ex, a):
    return ghost(ex.args_ns.node.target, "symbol", _SYMBOL)


lookup_c = Contract(qualname="dsl_compiler/src/semantic/symbol_table.py::SymbolTable.lookup", params={"self": _OPQ, "name": _OPQ}, effect=_lookup, verify=False,
                    note="proved in contracts.c14: innermost definition of the name, None when undefined")


def _assign_post(kind):
    def post(a, res):
        node = a.node
        if len(TYPED) != 1 or TYPED[0] is not node.value:
            return False   # the right-hand side is always analysed
        sym = node.target._fields.get("@symbol")
        if kind == "identifier":
            is_place = isa(node.value, "CallExpr") is True and node.value.name == "place"
            if sym is None:
                if isa(node.value, "CallExpr") is True:
                    redefined = node._fields.get("@redefined")
                    if DEFS:
                        return And(node.value.name == "place", len(DEFS) == 1 and DEFS[0][1].name is node.target.name, len(ERR) == ops.ite(redefined, 1, 0), len(META) == 1)
                    return And(node.value.name != "place", len(ERR) == 1, len(META) == 1)
                return len(ERR) == 1 and not DEFS and len(META) == 1
            entity = sym.symbol_type == "entity"
            immutable_non_entity = And(Not(sym.is_mutable), Not(entity))
            return And(len(ERR) == ops.ite(immutable_non_entity, 1, 0), not DEFS, len(META) == 1)
        # property write
        if sym is None:
            return len(ERR) == 1 and not DEFS and not META
        entity = sym.symbol_type == "entity"
        return And(len(ERR) == ops.ite(entity, 0, 1), not DEFS and not META)
    return post


_SYMBOL = ty.TOpt(ty.TObj("Symbol", only=("Symbol",), ftypes=(("is_mutable", ty.Bool), ("symbol_type", ty.Str))))  # an Enum member is represented by its (unique) value


def _assign_contract(kind, target_t, value_t, note):
    return Contract(
        qualname=AN + "visit_AssignStmt",
        params={"self": _SELF, "node": ty.TObj("AssignStmt", only=("AssignStmt",), ftypes=(("target", target_t), ("value", value_t)))},
        requires=[("(reset capture)", _reset), ("the analyser has a current scope", lambda a: a.self.current_scope is not None)],
        ensures=[("an error exactly for an undefined / immutable name, an undefined entity or a property of a non-entity; the right-hand side is always analysed", _assign_post(kind))],
        uses={**_USES, "SymbolTable.lookup": lookup_c}, dynamic_types=_DYN, properties=("C14",), min_obligations=2, no_replay=True, note=note)


_IDENT = ty.TObj("Identifier", only=("Identifier",), ftypes=(("name", ty.Str),))
_PROP = ty.TObj("PropertyAccess", only=("PropertyAccess",), ftypes=(("object_name", ty.Str), ("property_name", ty.Str)))
_CALL = ty.TObj("CallExpr", only=("CallExpr",), ftypes=(("name", ty.Str),))
_OTHER = ty.TObj("Expr", only=("BinaryOp", "IdentifierExpr", "NumberLiteral"))
CONTRACTS = [decl, _assign_contract("identifier", _IDENT, _CALL, "name = call(...)"), _assign_contract("identifier", _IDENT, _OTHER, "name = expression"),
             _assign_contract("property", _PROP, _OTHER, "entity.property = expression"),
             error_c, define_c, get_type, naked, matches, implicit, meta, lookup_c]
