"""C14: SemanticAnalyzer.visit_DeclStmt / visit_AssignStmt — which declarations and assignments are refused.

visit_DeclStmt    `T name = expr;`   an error is recorded when (and only when) expr is a bare bundle comparison, or the value's
                  kind does not match T, or the name is already defined in this scope; a bare bundle comparison defines nothing;
                  otherwise the name is defined in the CURRENT scope with the initialiser's type (an integer initialiser of a
                  Signal becomes a signal of a fresh implicit type).
visit_AssignStmt  `name = expr;` / `entity.prop = expr;`   an error is recorded when (and only when) the name is undefined
                  (unless it is first bound by place(...)), the name is immutable and not an entity, the entity is undefined, or the
                  object is not an entity; the right-hand side is analysed in every case (its own errors are not lost)."""
from __future__ import annotations

import z3

from pyvc import types as ty
from pyvc.contract import Contract
from pyvc.ghost import ghost, isa
from pyvc.values import PyRaise, SObj, fresh_name
from spec import ops
from spec.ops import And, Implies, Not, Or

AN = "dsl_compiler/src/semantic/analyzer.py::SemanticAnalyzer."
_SYMBOL = None  # set below
_OPQ = ty.TOpaque("x")
ERR, DEFS, META, TYPED = [], [], [], []
_VT = ty.TObj("ValueInfo", only=("IntValue", "SignalValue", "BundleValue", "EntityValue", "MemoryValue"))


def _reset(a):
    ERR.clear(), DEFS.clear(), META.clear(), TYPED.clear()
    return True


def _error(ex, a):
    ERR.append(a)
    return None


def _define(ex, a):
    DEFS.append((a.self, a.symbol))
    if ex.branch(ghost(ex.args_ns.node, "redefined", ty.Bool), label="redefined"):
        raise PyRaise("SemanticError", "already defined")
    return None


def _get_type(ex, a):
    TYPED.append(a.expr)
    return ghost(a.expr, "type", _VT)


error_c = Contract(qualname="dsl_compiler/src/common/diagnostics.py::ProgramDiagnostics.error", params={"self": _OPQ, "message": _OPQ, "stage": _OPQ, "line": _OPQ, "column": _OPQ,
                                                                                                         "source_file": _OPQ, "node": _OPQ},
                   defaults={"stage": None, "line": 0, "column": 0, "source_file": None, "node": None}, effect=_error, verify=False, note="proved in contracts.c14: the error is counted (and raised)")
define_c = Contract(qualname="dsl_compiler/src/semantic/symbol_table.py::SymbolTable.define", params={"self": _OPQ, "symbol": _OPQ}, effect=_define, verify=False,
                    note="proved in contracts.c14: defines the name in THIS scope or raises SemanticError when it is already defined here")
get_type = Contract(qualname=AN + "get_expr_type", params={"self": _OPQ, "expr": _OPQ}, effect=_get_type, verify=False, note="type of the expression (records that it was analysed)")
naked = Contract(qualname=AN + "_is_naked_bundle_comparison", params={"self": _OPQ, "expr": _OPQ}, effect=lambda ex, a: ghost(a.expr, "naked", ty.Bool), verify=False,
                 note="a comparison whose left operand is a bundle (four-line test)")
matches = Contract(qualname=AN + "_value_matches_type", params={"self": _OPQ, "value_type": _OPQ, "type_name": _OPQ}, effect=lambda ex, a: ghost(ex.args_ns.node, "matches", ty.Bool),
                   verify=False, note="proved in contracts.c14 (_value_matches_type: 42 cases)")
implicit = Contract(qualname=AN + "allocate_implicit_type", params={"self": _OPQ}, effect=lambda ex, a: z3.String("fresh_implicit_type"), verify=False, note="fresh implicit type name")
meta = Contract(qualname=AN + "_register_signal_metadata", params={"self": _OPQ, "name": _OPQ, "node": _OPQ, "value_type": _OPQ, "declared_type": _OPQ}, defaults={"declared_type": None},
                effect=lambda ex, a: META.append((a.name, a.node)), verify=False, note="debug metadata of the binding (recorded)")
_SELF = ty.TObj("SemanticAnalyzer", only=("SemanticAnalyzer",))
_DYN = {"self": {"diagnostics": ty.TObj("ProgramDiagnostics", only=("ProgramDiagnostics",)), "current_scope": ty.TObj("SymbolTable", only=("SymbolTable",))}}
_USES = {"ProgramDiagnostics.error": error_c, "SymbolTable.define": define_c, "SemanticAnalyzer.get_expr_type": get_type, "SemanticAnalyzer._is_naked_bundle_comparison": naked,
         "SemanticAnalyzer._value_matches_type": matches, "SemanticAnalyzer.allocate_implicit_type": implicit, "SemanticAnalyzer._register_signal_metadata": meta,
         "SemanticAnalyzer._type_name_to_symbol_type": "skip", "SemanticAnalyzer._value_type_name": "skip", "SemanticAnalyzer._try_simplify_signal_projection": "skip"}


def _decl_post(a, res):
    node = a.node
    is_naked = node.value._fields.get("@naked")
    if is_naked is None:
        return False
    scope = a.old.self.current_scope
    scope = scope._obj if hasattr(scope, "_obj") else scope
    if "@matches" not in node._fields:
        # refused before typing: must be the bare bundle comparison; nothing defined
        return And(is_naked, len(ERR) == 1 and not DEFS and not META)
    ok_type, redefined = node._fields["@matches"], node._fields.get("@redefined")
    if len(DEFS) != 1 or DEFS[0][0] is not scope or redefined is None:
        return False
    sym = DEFS[0][1]
    vt = node.value._fields.get("@type")
    cs = [Not(is_naked), sym.name is node.name, sym.defined_at is node]
    n_err = ops.ite(ok_type, 0, 1) + ops.ite(redefined, 1, 0)
    cs.append(len(ERR) == n_err)
    if isinstance(sym.value_type, SObj) and sym.value_type is not vt:
        # wrapped: only an integer initialiser of a Signal declaration, and then on a fresh implicit type
        cs += [node.type_name == "Signal", isa(vt, "IntValue"), isa(sym.value_type, "SignalValue"), sym.value_type.signal_type == z3.String("fresh_implicit_type"),
               sym.value_type.count_expr is node.value]
    else:
        cs += [sym.value_type is vt, Not(And(node.type_name == "Signal", isa(vt, "IntValue")))]
    cs.append(Implies(Not(redefined), len(META) == 1))
    cs.append(Implies(redefined, len(META) == 0))
    return And(*[x if not isinstance(x, bool) else z3.BoolVal(x) for x in cs])


decl = Contract(
    qualname=AN + "visit_DeclStmt",
    params={"self": _SELF, "node": ty.TObj("DeclStmt", only=("DeclStmt",), ftypes=(("name", ty.Str), ("type_name", ty.Str),
                                                                                    ("value", ty.TObj("Expr", only=("BinaryOp", "IdentifierExpr", "NumberLiteral", "SignalLiteral", "BundleLiteral", "CallExpr")))))},
    requires=[("(reset capture)", _reset), ("the analyser has a current scope", lambda a: a.self.current_scope is not None)],
    ensures=[("one error per violated rule (bare bundle comparison / kind mismatch / redefinition), none otherwise; the name is defined in the current scope with the initialiser's type",
              _decl_post)],
    uses=_USES, dynamic_types=_DYN, properties=("C14",), min_obligations=4, no_replay=True)


# ---------------------------------------------------------------------------------------------------------------------
def _lookup(ex, a):
    return ghost(ex.args_ns.node.target, "symbol", _SYMBOL)


lookup_c = Contract(qualname="dsl_compiler/src/semantic/symbol_table.py::SymbolTable.lookup", params={"self": _OPQ, "name": _OPQ}, effect=_lookup, verify=False,
                    note="proved in contracts.c14: innermost definition of the name, None when undefined")


def _assign_post(kind):
    def post(a, res):
        node = a.node
        if len(TYPED) != 1 or TYPED[0] is not node.value:
            return False   # the right-hand side is always analysed
        sym = node.target._fields.get("@symbol")
        if kind == "identifier":
            is_place = isa(node.value, "CallExpr") is True and node.value.name == "place"
            if sym is None:
                if isa(node.value, "CallExpr") is True:
                    redefined = node._fields.get("@redefined")
                    if DEFS:
                        return And(node.value.name == "place", len(DEFS) == 1 and DEFS[0][1].name is node.target.name, len(ERR) == ops.ite(redefined, 1, 0), len(META) == 1)
                    return And(node.value.name != "place", len(ERR) == 1, len(META) == 1)
                return len(ERR) == 1 and not DEFS and len(META) == 1
            entity = sym.symbol_type == "entity"
            immutable_non_entity = And(Not(sym.is_mutable), Not(entity))
            return And(len(ERR) == ops.ite(immutable_non_entity, 1, 0), not DEFS, len(META) == 1)
        # property write
        if sym is None:
            return len(ERR) == 1 and not DEFS and not META
        entity = sym.symbol_type == "entity"
        return And(len(ERR) == ops.ite(entity, 0, 1), not DEFS and not META)
    return post


_SYMBOL = ty.TOpt(ty.TObj("Symbol", only=("Symbol",), ftypes=(("is_mutable", ty.Bool), ("symbol_type", ty.Str))))  # an Enum member is represented by its (unique) value


def _assign_contract(kind, target_t, value_t, note):
    return Contract(
        qualname=AN + "visit_AssignStmt",
        params={"self": _SELF, "node": ty.TObj("AssignStmt", only=("AssignStmt",), ftypes=(("target", target_t), ("value", value_t)))},
        requires=[("(reset capture)", _reset), ("the analyser has a current scope", lambda a: a.self.current_scope is not None)],
        ensures=[("an error exactly for an undefined / immutable name, an undefined entity or a property of a non-entity; the right-hand side is always analysed", _assign_post(kind))],
        uses={**_USES, "SymbolTable.lookup": lookup_c}, dynamic_types=_DYN, properties=("C14",), min_obligations=2, no_replay=True, note=note)


_IDENT = ty.TObj("Identifier", only=("Identifier",), ftypes=(("name", ty.Str),))
_PROP = ty.TObj("PropertyAccess", only=("PropertyAccess",), ftypes=(("object_name", ty.Str), ("property_name", ty.Str)))
_CALL = ty.TObj("CallExpr", only=("CallExpr",), ftypes=(("name", ty.Str),))
_OTHER = ty.TObj("Expr", only=("BinaryOp", "IdentifierExpr", "NumberLiteral"))
CONTRACTS = [decl, _assign_contract("identifier", _IDENT, _CALL, "name = call(...)"), _assign_contract("identifier", _IDENT, _OTHER, "name = expression"),
             _assign_contract("property", _PROP, _OTHER, "entity.property = expression"),
             error_c, define_c, get_type, naked, matches, implicit, meta, lookup_c]


# =================================================================================================
# SemanticAnalyzer.visit_CallExpr (undefined function, not a function, recursion, arity, argument kinds):
#   an error is recorded exactly when  the name is undefined and not a builtin  /  it names something that is not a function  /
#   the function is being analysed (direct or indirect recursion)  /  the number of arguments differs from the number of
#   parameters  /  an argument's kind is not accepted for its parameter (one error per such argument);
#   otherwise none — and every argument of an arity-correct call is analysed.  Calls with two arguments against functions
#   with one, two or three parameters (bounded lists), names / kinds symbolic.
# =================================================================================================
def _call_lookup(ex, a):
    return ghost(ex.args_ns.node, "symbol", ty.TOpt(ty.TObj("Symbol", only=("Symbol",), ftypes=(("symbol_type", ty.Str),))))


def _compat(ex, a):
    TYPED.append(("compat", a.param_type, a.arg_type))
    return ghost(a.arg_type, "compatible", ty.Bool)


call_lookup = Contract(qualname="dsl_compiler/src/semantic/symbol_table.py::SymbolTable.lookup", params={"self": _OPQ, "name": _OPQ}, effect=_call_lookup, verify=False,
                       note="proved in contracts.c14: innermost definition of the name, None when undefined")
compat_c = Contract(qualname=AN + "_is_compatible_argument", params={"self": _OPQ, "param_type": _OPQ, "arg_type": _OPQ}, effect=_compat, verify=False, note="proved below")
builtin_c = Contract(qualname=AN + "_validate_builtin_call", params={"self": _OPQ, "node": _OPQ}, effect=lambda ex, a: META.append(("builtin", a.node)), verify=False,
                     note="checks of place / input / memory (S3 reject scope, bounded)")


def _call_post(n_params):
    def post(a, res):
        node = a.node
        sym = node._fields.get("@symbol")
        args = list(node.args)
        analysed = [t for t in TYPED if not (isinstance(t, tuple) and t and t[0] == "compat")]
        compat = [t for t in TYPED if isinstance(t, tuple) and t and t[0] == "compat"]
        if sym is None:
            builtin = Or(node.name == "place", node.name == "input", node.name == "memory")
            if META:
                return And(builtin, len(ERR) == 0)
            return And(Not(builtin), len(ERR) == 1)
        is_fn = sym.symbol_type == "function"
        recursive = z3.Select(a.self._analyzing_functions.member, node.name)
        if not analysed:
            # refused before looking at the arguments: not a function, recursion, or wrong arity
            return And(len(ERR) == 1, Or(Not(is_fn), recursive, True if n_params != len(args) else False))
        if n_params != len(args):
            return False
        if len(analysed) != len(args) or any(x is not y for x, y in zip(analysed, args)):
            return False
        bad = sum(ops.ite(arg._fields["@type"]._fields["@compatible"], 0, 1) for arg in args)
        params_ok = all(c[1] is p.type_name for c, p in zip(compat, sym.function_def.params)) and len(compat) == len(args)
        return And(is_fn, Not(recursive), len(ERR) == bad, params_ok)
    return post


_ARG = ty.TObj("Expr", only=("IdentifierExpr", "NumberLiteral", "BinaryOp"))
for _np in (1, 2, 3):
    _params = ty.TTuple(tuple(ty.TObj("TypedParam", only=("TypedParam",), ftypes=(("type_name", ty.Str),)) for _ in range(_np)))
    CONTRACTS.append(Contract(
        qualname=AN + "visit_CallExpr",
        params={"self": _SELF, "node": ty.TObj("CallExpr", only=("CallExpr",), ftypes=(("name", ty.Str), ("args", ty.TTuple((_ARG, _ARG)))))},
        requires=[("(reset capture)", _reset)],
        ensures=[("an error exactly for: undefined non-builtin, not a function, recursion, wrong arity, each argument of a wrong kind", _call_post(_np))],
        uses={**_USES, "SymbolTable.lookup": call_lookup, "SemanticAnalyzer._is_compatible_argument": compat_c, "SemanticAnalyzer._validate_builtin_call": builtin_c},
        dynamic_types={**_DYN, "self": {**_DYN["self"], "_analyzing_functions": ty.TSet(ty.Str)},
                       "node@symbol": {"function_def": ty.TObj("FuncDecl", only=("FuncDecl",), ftypes=(("params", _params),))}},
        properties=("C14", "C15"), min_obligations=3, no_replay=True, note=f"two arguments, function with {_np} parameter(s)"))
CONTRACTS += [call_lookup, compat_c, builtin_c]


# ---------------------------------------------------------------------------------------------------------------------
def _compat_post(a, res):
    t = a.arg_type
    num = Or(isa(t, "IntValue"), isa(t, "SignalValue")) if not isinstance(isa(t, "IntValue"), bool) else (isa(t, "IntValue") or isa(t, "SignalValue"))
    ent = isa(t, "EntityValue")
    want = ops.ite(Or(a.param_type == "int", a.param_type == "Signal"), num, ops.ite(a.param_type == "Entity", ent, False))
    return ops.eq(res, want) if ops.is_sym(want) or ops.is_sym(res) else res == want


CONTRACTS.append(Contract(
    qualname=AN + "_is_compatible_argument", params={"self": _SELF, "param_type": ty.Str, "arg_type": _VT},
    ensures=[("int / Signal parameters take integers and signals, Entity parameters take entities, nothing else is accepted (bundles and memories never)", _compat_post)],
    properties=("C14",), min_obligations=3, no_replay=True))


# ---------------------------------------------------------------------------------------------------------------------
# _infer_bundle_select_type: b["signal-X"] is an error when b is not a bundle or (for a bundle with known members) X is absent;
# the result is then a signal of a fresh implicit type; a valid selection is a signal of type X and records no error.
# ---------------------------------------------------------------------------------------------------------------------
def _sel_type(ex, a):
    return ghost(a.expr, "type", ty.TObj("ValueInfo", only=("IntValue", "SignalValue", "BundleValue", "DynamicBundleValue", "EntityValue"), ftypes=(("signal_types", ty.TConcrete({"signal-A", "signal-B"})),)))


def _mk_info(ex, a):
    r = SObj(["SignalTypeInfo"], fresh_name("info"), lazy=False)
    r._fields["name"] = a.signal_type
    return r


def _select_post(a, res):
    bt = a.expr.bundle._fields.get("@type")
    is_bundle = Or(isa(bt, "BundleValue"), isa(bt, "DynamicBundleValue")) if not isinstance(isa(bt, "BundleValue"), bool) else (isa(bt, "BundleValue") or isa(bt, "DynamicBundleValue"))
    dynamic = isa(bt, "DynamicBundleValue")
    member = Or(a.expr.signal_type == "signal-A", a.expr.signal_type == "signal-B")
    valid = And(is_bundle, Or(dynamic, member))
    st = res.signal_type
    named = isinstance(st, SObj)
    cs = [isa(res, "SignalValue"), len(ERR) == ops.ite(valid, 0, 1)]
    cs.append(valid if named else Not(valid))
    if named:
        cs.append(st.name is a.expr.signal_type)
    return And(*[x if not isinstance(x, bool) else z3.BoolVal(x) for x in cs])


CONTRACTS.append(Contract(
    qualname=AN + "_infer_bundle_select_type",
    params={"self": _SELF, "expr": ty.TObj("BundleSelectExpr", only=("BundleSelectExpr",), ftypes=(("signal_type", ty.Str), ("bundle", ty.TObj("Expr", only=("IdentifierExpr",)))))},
    requires=[("(reset capture)", _reset)],
    ensures=[("selecting from a non-bundle or an absent member is an error (result: fresh implicit signal); a valid selection is a signal of the selected type, no error", _select_post)],
    uses={**_USES, "SemanticAnalyzer.get_expr_type": Contract(qualname=AN + "get_expr_type", params={"self": _OPQ, "expr": _OPQ}, effect=_sel_type, verify=False, note="type of the bundle expression"),
          "SemanticAnalyzer.make_signal_type_info": Contract(qualname=AN + "make_signal_type_info", params={"self": _OPQ, "signal_type": _OPQ}, effect=_mk_info, verify=False, note="signal type record with this name")},
    dynamic_types=_DYN, properties=("C14", "C02"), min_obligations=3, no_replay=True, note="bundle of two members (bounded), selected name symbolic"))


# =================================================================================================
# Signal names and the reserved write-enable signal.
#   validate_signal_type_with_error   an unknown signal name (not registered by the program, not in the game's signal data) is an
#                                     error; known names are accepted silently; the verdict is returned
#   _emit_reserved_signal_diagnostic  `signal-W` is refused with an ERROR wherever it is used; other names pass
#   visit_MemDecl                     the declared type of a cell is validated and checked against the reserved rules; the cell is
#                                     defined in the current scope as a mutable memory symbol; a redefinition is an error
# =================================================================================================
def _valid_name(ex, a):
    ok = ghost(ex.args_ns.node, "name_in_game_data", ty.Bool)
    return (ok, "Unknown signal")


is_valid_c = Contract(qualname="dsl_compiler/src/common/signal_registry.py::is_valid_factorio_signal", params={"signal_name": _OPQ}, effect=_valid_name, verify=False,
                      note="lookup in the game's signal tables shipped with draftsman (S4 assumption): (True, None) or (False, message)")


def _validate_post(a, res):
    name = a.signal_name
    known = z3.Select(a.self.signal_type_map.present, name)
    in_game = a.node._fields.get("@name_in_game_data")
    if in_game is None:
        # not looked up: empty name (refused, silently) or registered by the program
        return And(len(ERR) == 0, Or(And(z3.Length(name) == 0, res is False or res == False), And(known, res is True or res == True)))  # noqa: E712
    return And(z3.Length(name) > 0, Not(known), ops.eq(res, in_game), len(ERR) == ops.ite(in_game, 0, 1))


CONTRACTS.append(Contract(
    qualname=AN + "validate_signal_type_with_error", params={"self": _SELF, "signal_name": ty.Str, "node": ty.TObj("ASTNode", only=("MemDecl", "SignalLiteral")), "context": ty.Str},
    requires=[("(reset capture)", _reset)],
    ensures=[("an unknown, unregistered name is an error and False; a registered or game name is True without error; the empty name is False", _validate_post)],
    uses={**_USES, "fn:is_valid_factorio_signal": is_valid_c}, dynamic_types={**_DYN, "self": {**_DYN["self"], "signal_type_map": ty.TDict(ty.Str, ty.Str)}},
    properties=("C14", "C13"), min_obligations=3, no_replay=True))
CONTRACTS.append(is_valid_c)

WARN = []
warning_c = Contract(qualname="dsl_compiler/src/common/diagnostics.py::ProgramDiagnostics.warning", params={"self": _OPQ, "message": _OPQ, "stage": _OPQ, "line": _OPQ, "column": _OPQ,
                                                                                                             "source_file": _OPQ, "node": _OPQ},
                     defaults={"stage": None, "line": 0, "column": 0, "source_file": None, "node": None}, effect=lambda ex, a: WARN.append(a), verify=False, note="a warning (does not stop compilation)")


def _reserved_post(a, res):
    return And(len(ERR) == ops.ite(a.signal_name == "signal-W", 1, 0), len(WARN) == 0)


CONTRACTS.append(Contract(
    qualname=AN + "_emit_reserved_signal_diagnostic", params={"self": _SELF, "signal_name": ty.Str, "node": ty.TObj("ASTNode", only=("MemDecl", "SignalLiteral")), "context": ty.Str},
    requires=[("(reset capture)", lambda a: (WARN.clear(), _reset(a)) and True)],
    ensures=[("signal-W is refused with an ERROR (not a warning); every other name passes silently", _reserved_post)],
    uses={**_USES, "ProgramDiagnostics.warning": warning_c}, dynamic_types=_DYN, properties=("C14", "C13"), min_obligations=2, no_replay=True))
CONTRACTS.append(warning_c)

MEM = {}


def _validate_eff(ex, a):
    MEM.setdefault("validated", []).append(a.signal_name)
    return ghost(ex.args_ns.node, "valid", ty.Bool)


def _reserved_eff(ex, a):
    MEM.setdefault("reserved_checked", []).append(a.signal_name)
    return None


def _memdecl_post(a, res):
    node = a.node
    scope = a.old.self.current_scope
    scope = scope._obj if hasattr(scope, "_obj") else scope
    t = node.signal_type
    cs = []
    if t is None:
        cs.append(not MEM.get("validated") and not MEM.get("reserved_checked"))
    else:
        cs.append(len(MEM.get("validated", [])) == 1 and MEM["validated"][0] is t)
        checked = MEM.get("reserved_checked", [])
        cs.append(Implies(t == "signal-W", len(checked) == 1 and checked[0] is t) if len(checked) <= 1 else False)
    if len(DEFS) != 1 or DEFS[0][0] is not scope:
        return False
    sym = DEFS[0][1]
    redefined = node._fields.get("@redefined")
    cs += [sym.name is node.name, sym.symbol_type == "memory", sym.is_mutable is True, len(ERR) == ops.ite(redefined, 1, 0)]
    return And(*[x if not isinstance(x, bool) else z3.BoolVal(x) for x in cs])


CONTRACTS.append(Contract(
    qualname=AN + "visit_MemDecl", params={"self": _SELF, "node": ty.TObj("MemDecl", only=("MemDecl",), ftypes=(("name", ty.Str), ("signal_type", ty.TOpt(ty.Str))))},
    requires=[("(reset capture)", lambda a: (MEM.clear(), _reset(a)) and True), ("the analyser has a current scope", lambda a: a.self.current_scope is not None)],
    ensures=[("a declared cell type is validated and, when reserved, reported; the cell is defined in the current scope as a mutable memory; redefinition is an error", _memdecl_post)],
    uses={**_USES, "SemanticAnalyzer.validate_signal_type_with_error": Contract(qualname=AN + "validate_signal_type_with_error",
                                                                              params={"self": _OPQ, "signal_name": _OPQ, "node": _OPQ, "context": _OPQ}, defaults={"context": ""},
                                                                              effect=_validate_eff, verify=False, note="proved above"),
          "SemanticAnalyzer._emit_reserved_signal_diagnostic": Contract(qualname=AN + "_emit_reserved_signal_diagnostic", params={"self": _OPQ, "signal_name": _OPQ, "node": _OPQ, "context": _OPQ},
                                                                        effect=_reserved_eff, verify=False, note="proved above"),
          "SemanticAnalyzer.make_signal_type_info": Contract(qualname=AN + "make_signal_type_info", params={"self": _OPQ, "signal_type": _OPQ}, effect=_mk_info, verify=False,
                                                             note="signal type record with this name")},
    dynamic_types={**_DYN, "self": {**_DYN["self"], "memory_types": ty.TObjMap(ty.Str, ty.TObj("MemoryInfo", only=("MemoryInfo",)))}},
    properties=("C14", "C13", "C03"), min_obligations=3, no_replay=True))


# =================================================================================================
# Result types of binary operators (C01: which signal a result is computed on; C14: Bundle OP Bundle is refused).
#   _check_signal_type_compatibility   int OP int -> int; signal OP int -> the signal's type; int OP signal -> the signal's type;
#                                      signal OP signal -> the LEFT type (a warning exactly when the names differ, not both are
#                                      virtual and neither is implicit); anything else -> int with a warning
#   infer_binary_op_type               bundle CMP x -> a comparison result on a fresh type (remembering the bundle);
#                                      bundle OP signal/int -> a bundle with the same members (a copy); bundle OP anything else
#                                      (another bundle, an entity) -> ERROR;  x CMP y -> a comparison result on the left signal's type
#                                      if that is a virtual channel, else the right's, else a fresh one;  x && / || y -> on the left
#                                      signal's type, else the right's, else fresh, a comparison result iff one side is;
#                                      arithmetic / bitwise / power -> what _check_signal_type_compatibility says, its warning passed on
# =================================================================================================
_SIGT = ty.TObj("SignalTypeInfo", only=("SignalTypeInfo",), ftypes=(("name", ty.Str), ("is_virtual", ty.Bool), ("is_implicit", ty.Bool)))
_VT2 = ty.TObj("ValueInfo", only=("IntValue", "SignalValue", "BundleValue", "EntityValue"),
               ftypes=(("signal_type", _SIGT), ("is_comparison_result", ty.Bool), ("signal_types", ty.TConcrete({"signal-A", "signal-B"}))))


def _virtual(info):
    return Or(info.is_virtual, z3.PrefixOf(z3.StringVal("signal-"), info.name), z3.PrefixOf(z3.StringVal("__"), info.name))


def _compat2_post(a, res):
    l, r = a.left_type, a.right_type
    if not (isinstance(res, tuple) and len(res) == 2):
        return False
    rt, warn = res
    from pyvc.values import FStr
    if warn is not None and not ((isinstance(warn, str) and warn) or (isinstance(warn, FStr) and any(isinstance(p, str) and p for p in warn.skeleton))):
        return False   # a warning text is never empty (callers test its truthiness)
    li, ls, ri, rs = isa(l, "IntValue"), isa(l, "SignalValue"), isa(r, "IntValue"), isa(r, "SignalValue")
    if li is True and ri is True:
        return isa(rt, "IntValue") is True and warn is None and rt is not l
    if ls is True and ri is True:
        return rt is l and warn is None
    if li is True and rs is True:
        return rt is r and warn is None
    if ls is True and rs is True:
        same = l.signal_type.name == r.signal_type.name
        quiet = Or(same, And(_virtual(l.signal_type), _virtual(r.signal_type)), l.signal_type.is_implicit, r.signal_type.is_implicit)
        return And(rt is l, quiet if warn is None else Not(quiet))
    return isa(rt, "IntValue") is True and warn is not None


CONTRACTS.append(Contract(
    qualname=AN + "_check_signal_type_compatibility",
    params={"self": _SELF, "left_type": _VT2, "right_type": _VT2, "op": ty.Str, "node": ty.TObj("BinaryOp", only=("BinaryOp",), ftypes=(("line", ty.Int),))},
    ensures=[("int/int -> int; one signal -> that signal's type; two signals -> the left type, warned exactly for two different explicit non-virtual... names; else int + warning", _compat2_post)],
    uses={"SemanticAnalyzer._is_virtual_channel": "inline"}, dynamic_types=_DYN, properties=("C01", "C14"), min_obligations=5, no_replay=True))

BIN = {}


def _bin_type(ex, a):
    return ghost(a.expr, "type", _VT2)


def _check_c(ex, a):
    BIN.setdefault("check", []).append((a.left_type, a.right_type, a.op))
    rt = ghost(ex.args_ns.expr, "checked_type", _VT2)
    warn = ghost(ex.args_ns.expr, "warning", ty.TOpt(ty.Str))
    if warn is not None:
        ex.assume(z3.Length(warn) > 0)   # proved above: a warning text has a literal, non-empty part
    return (rt, warn)


def _bin_post(a, res):
    e = a.expr
    l, r = e.left._fields.get("@type"), e.right._fields.get("@type")
    if l is None or r is None:
        return False
    op = e.op
    cmp_ = Or(*[op == o for o in ("==", "!=", "<", "<=", ">", ">=")])
    logical = Or(op == "&&", op == "||")
    warned = BIN.get("warned", [])
    if isa(l, "BundleValue") is True:
        if isa(res, "BundleValue") is True and res is not l:
            return And(Not(cmp_), Or(isa(r, "SignalValue"), isa(r, "IntValue")) if not isinstance(isa(r, "IntValue"), bool) else (isa(r, "IntValue") or isa(r, "SignalValue")),
                       res.signal_types == l.signal_types and res.signal_types is not l.signal_types, len(ERR) == 0)
        if res is l:   # refused: right side is neither a signal nor an integer (another bundle, an entity)
            rbad = Not(Or(isa(r, "SignalValue"), isa(r, "IntValue"))) if not isinstance(isa(r, "IntValue"), bool) else not (isa(r, "IntValue") or isa(r, "SignalValue"))
            return And(Not(cmp_), rbad, len(ERR) == 1)
        return And(cmp_, isa(res, "SignalValue"), res.is_comparison_result is True, res.signal_type == z3.String("fresh_implicit_type"),
                   e._fields.get("_bundle_comparison_source") is l, len(ERR) == 0)
    checked = BIN.get("check", [])
    if checked:
        rt, warn = e._fields.get("@checked_type"), e._fields.get("@warning")
        return And(Not(cmp_), Not(logical), len(checked) == 1 and checked[0][0] is l and checked[0][1] is r and checked[0][2] is op, res is rt,
                   len(warned) == (0 if warn is None else 1), len(ERR) == 0)
    ls, rs = isa(l, "SignalValue"), isa(r, "SignalValue")
    lv = And(ls, _virtual(l.signal_type)) if ls is not False else False
    rv = And(rs, _virtual(r.signal_type)) if rs is not False else False
    st = res.signal_type
    fresh = z3.String("fresh_implicit_type")
    if ops.is_sym(st):
        on = "fresh" if st.eq(fresh) else None
    else:
        on = "left" if (ls is not False and st is l.signal_type) else ("right" if (rs is not False and st is r.signal_type) else None)
    if on is None:
        return False
    is_cmp_res = res.is_comparison_result
    cmp_rule = {"left": lv, "right": And(Not(lv), rv), "fresh": And(Not(lv), Not(rv))}[on]
    lc = And(ls, l.is_comparison_result) if ls is not False else False
    rc = And(rs, r.is_comparison_result) if rs is not False else False
    log_rule = {"left": ls, "right": And(Not(ls), rs), "fresh": And(Not(ls), Not(rs))}[on]
    return And(isa(res, "SignalValue"), len(ERR) == 0,
               Or(And(cmp_, cmp_rule, is_cmp_res is True or ops.eq(is_cmp_res, True)),
                  And(Not(cmp_), logical, log_rule, ops.eq(is_cmp_res, Or(lc, rc)))))


CONTRACTS.append(Contract(
    qualname=AN + "infer_binary_op_type",
    params={"self": _SELF, "expr": ty.TObj("BinaryOp", only=("BinaryOp",), ftypes=(("op", ty.Str), ("left", ty.TObj("Expr", only=("IdentifierExpr",))), ("right", ty.TObj("Expr", only=("IdentifierExpr",)))))},
    requires=[("(reset capture)", lambda a: (BIN.clear(), _reset(a)) and True)],
    ensures=[("bundle rules (comparison / same-member result / ERROR for a non-scalar right side); comparison and logical results on the left virtual, else right, else a fresh type; "
              "arithmetic as _check_signal_type_compatibility says, warning passed on", _bin_post)],
    uses={**_USES, "SemanticAnalyzer.get_expr_type": Contract(qualname=AN + "get_expr_type", params={"self": _OPQ, "expr": _OPQ}, effect=_bin_type, verify=False, note="type of an operand"),
          "SemanticAnalyzer._check_signal_type_compatibility": Contract(qualname=AN + "_check_signal_type_compatibility",
                                                                        params={"self": _OPQ, "left_type": _OPQ, "right_type": _OPQ, "op": _OPQ, "node": _OPQ}, effect=_check_c, verify=False,
                                                                        note="proved above"),
          "SemanticAnalyzer._emit_type_warning": Contract(qualname=AN + "_emit_type_warning", params={"self": _OPQ, "message": _OPQ, "node": _OPQ},
                                                          effect=lambda ex, a: BIN.setdefault("warned", []).append(a.message), verify=False, note="a warning (does not stop compilation)"),
          "SemanticAnalyzer._is_virtual_channel": "inline"},
    dynamic_types=_DYN, properties=("C01", "C14", "C02"), min_obligations=6, no_replay=True))


# =================================================================================================
# SemanticAnalyzer._resolve_for_loop_constant (C16: a range bound given through a name): the value returned is the compile-time
# value recorded for an int variable of that name (innermost definition); an undefined name, a name that is not an int, or an int
# without a compile-time value is refused (ValueError, reported by the caller) — never a default such as 0.
# =================================================================================================
def _rfl_lookup(ex, a):
    return ghost(ex.args_ns.self, "symbol", ty.TOpt(ty.TObj("Symbol", only=("Symbol",), ftypes=(
        ("value_type", ty.TObj("ValueInfo", only=("IntValue", "SignalValue", "BundleValue"), ftypes=(("value", ty.TOpt(ty.Int)),))),))))


def _rfl_post(a, res):
    sym = a.self._fields.get("@symbol")
    return And(sym is not None and isa(sym.value_type, "IntValue") is True and sym.value_type.value is not None, ops.eq(res, sym.value_type.value) if sym is not None and sym.value_type.value is not None else False)


def _rfl_raises(a):
    sym = a.self._fields.get("@symbol")
    return sym is None or isa(sym.value_type, "IntValue") is not True or sym.value_type.value is None


CONTRACTS.append(Contract(
    qualname=AN + "_resolve_for_loop_constant", params={"self": _SELF, "name": ty.Str},
    ensures=[("the recorded compile-time value of the int variable", _rfl_post)],
    raises={"ValueError": _rfl_raises},
    uses={"SymbolTable.lookup": Contract(qualname="dsl_compiler/src/semantic/symbol_table.py::SymbolTable.lookup", params={"self": _OPQ, "name": _OPQ}, effect=_rfl_lookup, verify=False,
                                         note="proved in contracts.c14: innermost definition of the name, None when undefined")},
    dynamic_types=_DYN, properties=("C16", "C14"), min_obligations=2, no_replay=True))
