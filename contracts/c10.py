"""C10 contracts: optimisation never changes what the circuit does (K4)."""
from __future__ import annotations

import z3

from pyvc import types as ty
from pyvc.contract import Contract
from pyvc.values import FStr, SObj
from spec import ops
from spec.ops import And, Implies, Not, Or

CSE = "dsl_compiler/src/ir/optimizer.py::CSEOptimizer."

_CSE_SELF = ty.TObj("CSEOptimizer")
_SELF_TYPES = {"replacements": ty.TDict(ty.Str, ty.Str), "expr_cache": ty.TDict(ty.Str, ty.Str)}


from pyvc.ghost import isa  # noqa: E402


def _sym(o):
    return isinstance(o, SObj)


def _eq(x, y):
    if isinstance(x, (SObj, FStr)) or isinstance(y, (SObj, FStr)) or ops.is_sym(x) or ops.is_sym(y):
        return SObj.CUR.py_eq(x, y)
    return x == y


def _canon(me, source_id):
    """self.replacements.get(id, id)"""
    d = me.replacements
    if isinstance(d, dict):
        return d.get(source_id, source_id)
    return z3.If(z3.Select(d.present, source_id), z3.Select(d.vals, source_id), source_id)


def _is_obj(o):
    return _sym(o) or not (isinstance(o, (int, str, bool)) or ops.is_sym(o))


def _ref_equal(me, x, y):
    """Two ValueRefs denote the same operand: same kind and same (canonical source, signal type) / same int."""
    if _is_obj(x) and _is_obj(y):
        if isa(x, "SignalRef") and isa(y, "SignalRef"):
            return And(_canon(me, x.source_id) == _canon(me, y.source_id), x.signal_type == y.signal_type)
        return False
    if _is_obj(x) or _is_obj(y):
        return False
    return _eq(x, y)


def _bundle_operand(o):
    return _is_obj(o) and isa(o, "BundleRef")


def make_key_injective(a, ra, b, rb):
    """key(a) == key(b) != ''  ==>  the two nodes agree on every field that determines behaviour."""
    me = a.self
    if isinstance(ra, str) and ra == "" or isinstance(rb, str) and rb == "":
        return True  # "" : node kind without a key (never merged)
    same = _eq(ra, rb)
    if same is False:
        return True
    x, y = a.op, b.op
    if isa(x, "IRArith") != isa(y, "IRArith"):
        return Not(same)  # keys of different node kinds must differ
    if isa(x, "IRArith"):
        if any(_bundle_operand(o) for o in (x.left, x.right, y.left, y.right)):
            return True
        sem = And(x.op == y.op, _ref_equal(me, x.left, y.left), _ref_equal(me, x.right, y.right),
                  x.output_type == y.output_type)
        return Implies(same, sem)
    if isa(x, "IRDecider"):
        if x.conditions or y.conditions:
            return True  # multi-condition rows: outside this lemma
        if any(_bundle_operand(o) for o in (x.left, x.right, x.output_value, y.left, y.right, y.output_value)):
            return True
        sem = And(x.test_op == y.test_op, _ref_equal(me, x.left, y.left), _ref_equal(me, x.right, y.right),
                  _ref_equal(me, x.output_value, y.output_value), x.output_type == y.output_type,
                  ops.Iff(x.copy_count_from_input, y.copy_count_from_input))
        return Implies(same, sem)
    return True


def _pair_replay(fsrc, contract, A, B, model):
    """Build both IR nodes from the counter-model, call the real _make_key twice, re-evaluate the lemma."""
    from pyvc.verify import build_value, real_function, check_real_hash
    from pyvc.engine import NS
    info = {"confirmed": False}
    try:
        check_real_hash(fsrc)
        (exa, aa, _), (exb, ab, _) = A, B
        ra_args = {k: build_value(model, v) for k, v in aa.items()}
        rb_args = {k: build_value(model, v) for k, v in ab.items()}
        rb_args["self"] = ra_args["self"]
        for op in (ra_args["op"], rb_args["op"]):
            for f, dflt in (("conditions", []), ("needs_wire_separation", False)):
                if not hasattr(op, f):
                    object.__setattr__(op, f, dflt)
        me = ra_args["self"]
        # rebuild self.replacements from the model at every source id the two nodes mention
        from pyvc.verify import _val
        sym_self = aa["self"]
        d = sym_self._fields.get("replacements")
        repl = {}
        if d is not None:
            for ex_ in (exa, exb):
                for nm, (c, t) in ex_.inputs.items():
                    if nm.endswith(".source_id"):
                        k = _val(model, c)
                        if _val(model, z3.Select(d.present, z3.StringVal(k))) is True:
                            repl[k] = _val(model, z3.Select(d.vals, z3.StringVal(k)))
        me.replacements = repl
        info["replacements"] = repl
        ka = me._make_key(ra_args["op"])
        kb = me._make_key(rb_args["op"])
        info["key_a"], info["key_b"] = ka, kb
        info["node_a"] = {k: str(v) for k, v in vars(ra_args["op"]).items()}
        info["node_b"] = {k: str(v) for k, v in vars(rb_args["op"]).items()}
        ok = make_key_injective(NS(ra_args), ka, NS(rb_args), kb)
        info["lemma_value"] = bool(ok)
        info["confirmed"] = not bool(ok)
    except Exception as e:
        info["inconclusive"] = f"{type(e).__name__}: {e}"
    return info


_VREF = ty.TUnion((ty.TObj("SignalRef"), ty.TObj("BundleRef"), ty.Int))

make_key_lemma = Contract(
    qualname=CSE + "_make_key",
    params={"self": _CSE_SELF, "op": ty.TObj("IRNode", only=("IRArith", "IRDecider", "IRConst"))},
    pair_ensures=[("equal keys imply equal operator, operands, output type and output mode", make_key_injective)],
    pair_shared=("self",),
    replay=_pair_replay,
    uses={"CSEOptimizer._value_key": "inline"},
    dynamic_types={
        "self": _SELF_TYPES,
        "op": {"left": _VREF, "right": _VREF, "output_value": _VREF, "conditions": ty.TConcrete([]),
               "copy_count_from_input": ty.Bool, "op": ty.Str, "test_op": ty.Str, "output_type": ty.Str},
    },
    properties=("C10", "C02", "C01", "C12"),
    min_obligations=8,
    note="multi-condition deciders and BundleRef operands (keyed by repr(), i.e. by identity) are outside this lemma",
)

CONTRACTS = [make_key_lemma]

# =================================================================================================
# ConstantPropagationOptimizer._maybe_mark_dead: a constant is deleted only if NO remaining operation
# of the program reads it — whatever the kind of the reader.  The reader kinds and their reference
# fields are the spec table below (IR node definitions, dsl_compiler/src/ir/nodes.py).
# List-length bound: the operation list has 2 entries of arbitrary kinds (the statement is per entry).
# =================================================================================================
CP = "dsl_compiler/src/ir/optimizer.py::ConstantPropagationOptimizer."
_VREF = ty.TUnion((ty.TObj("SignalRef", only=("SignalRef",)), ty.Int))  # (a BundleRef takes the same non-SignalRef branch as an int)
_KINDS = ("IRArith", "IRDecider", "IRWireMerge", "IRMemWrite", "IRLatchWrite", "IREntityPropWrite", "IRPlaceEntity", "IRConst", "IRMemRead")
_COND = ty.TObj("DeciderCondition", only=("DeciderCondition",), ftypes=(("first_operand", ty.TOpt(_VREF)), ("second_operand", ty.TOpt(_VREF))))
_OPT_COND = ty.TOpt(ty.TTuple((_VREF, ty.Str, ty.Int)))
_NODE_F = (("node_id", ty.Str), ("left", _VREF), ("right", _VREF), ("output_value", _VREF), ("data_signal", _VREF), ("write_enable", _VREF),
           ("value", _VREF), ("set_signal", _VREF), ("reset_signal", _VREF), ("x", _VREF), ("y", _VREF),
           ("set_condition", _OPT_COND), ("reset_condition", _OPT_COND))


def _reads(o, nid):
    """spec: the operation o reads the node nid (reference fields per node kind)"""
    def r(v):
        if isinstance(v, SObj):
            return And(isa(v, "SignalRef"), v.source_id == nid) if "SignalRef" in v._cls_set else False
        return False
    def fields():
        if isa(o, "IRArith"):
            return [o.left, o.right]
        if isa(o, "IRDecider"):
            out = [o.left, o.right, o.output_value]
            for c in o.conditions:
                out += [c.first_operand, c.second_operand]
            return out
        if isa(o, "IRWireMerge"):
            return list(o.sources)
        if isa(o, "IRMemWrite"):
            return [o.data_signal, o.write_enable]
        if isa(o, "IRLatchWrite"):
            out = [o.value, o.set_signal, o.reset_signal]
            for t in (o.set_condition, o.reset_condition):
                if t is not None:
                    out.append(t[0])
            return out
        if isa(o, "IREntityPropWrite"):
            return [o.value]
        if isa(o, "IRPlaceEntity"):
            return [o.x, o.y]
        return []
    return Or(*[r(v) for v in fields() if v is not None]) if fields() else False


def _mark_dead_post(a, res):
    def has(st, k):
        return z3.Select(st.member, k)
    old, new = a.old.self.dead_nodes, a.self.dead_nodes
    cs = []
    for o in a.all_ops:
        cs.append(Or(o.node_id == a.node_id, has(old, o.node_id), Not(_reads(o, a.node_id))))
    return Implies(And(has(new, a.node_id), Not(has(old, a.node_id))), And(*cs))


def _mk_ops_types(k1, k2):
    t = {}
    for i, k in enumerate((k1, k2)):
        t[f"all_ops[{i}]"] = None
    return t


def _ops_type(kinds_list):
    return ty.TTuple(tuple(ty.TObj("IRNode", only=(k,), ftypes=_NODE_F + (("conditions", ty.TTuple((_COND,))), ("sources", ty.TTuple((_VREF, _VREF)))))
                           for k in kinds_list))


for _ks in [(k,) for k in _KINDS] + [("IRConst", "IRArith"), ("IRMemRead", "IREntityPropWrite"), ("IRArith", "IRWireMerge")]:
    CONTRACTS.append(Contract(
        qualname=CP + "_maybe_mark_dead",
        params={"self": ty.TObj("ConstantPropagationOptimizer", only=("ConstantPropagationOptimizer",)), "node_id": ty.Str,
                "const_map": ty.TObjMap(ty.Str, ty.TObj("IRConst", only=("IRConst",), ftypes=(("debug_metadata", ty.TRecord((("user_declared", ty.Bool),))),))),
                "all_ops": _ops_type(_ks)},
        ensures=[("a constant is marked dead only if no live operation reads it", _mark_dead_post)],
        uses={"ConstantPropagationOptimizer._references_node": "inline", "fn:_operands": "inline", "fn:_map_operands": "inline", "fn:collect": "inline"},
        dynamic_types={"self": {"dead_nodes": ty.TSet(ty.Str)}},
        properties=("C10", "C01"), min_obligations=1, no_replay=True, note=f"operation list of kinds {'+'.join(_ks)} (bounded list length {len(_ks)})"))

# =================================================================================================
# ConnectionPlanner._apply_mst_to_source_fanout: replacing the star S -> {X, Y} by a spanning tree registers the colour of the
# LOGICAL edges S->X, S->Y (both directions) and of every tree hop that has no colour yet — and never changes the colour
# already recorded for a real edge that happens to coincide with a hop (X -> Y of another signal group on the other colour).
# Concrete scenario (3 entities, hop X-Y pre-coloured): bounded structure.
# =================================================================================================
from pyvc.values import Opaque as _Opq2  # noqa: E402

CPL = "dsl_compiler/src/layout/connection_planner.py::ConnectionPlanner."
_OP2 = ty.TOpaque("x")
mst_tree = Contract(qualname=CPL + "_build_minimum_spanning_tree", params={"self": _OP2, "entity_ids": _OP2},
                    effect=lambda ex, a: [("S", "X"), ("X", "Y")], verify=False, note="the tree of this scenario: S - X - Y (the real function is covered by the spanning-tree box below: bounded)")
route_edge = Contract(qualname=CPL + "_route_mst_edge", params={"self": _OP2, "ent_a": _OP2, "ent_b": _OP2, "signal_name": _OP2, "wire_color": _OP2,
                                                                "side_a": _OP2, "side_b": _OP2, "network_id": _OP2}, effect=lambda ex, a: True, verify=False, note="routing succeeds")


def _mst_post(a, res):
    d = a.self._edge_wire_colors
    sig, col = "signal-A", "red"
    want = {("S", "X", sig): col, ("X", "S", sig): col, ("S", "Y", sig): col, ("Y", "S", sig): col,
            ("X", "Y", sig): "green",            # the real edge X -> Y of the other group keeps ITS colour
            ("Y", "X", sig): col,                # the reverse hop had no colour: it gets the tree's
            ("Q", "R", "signal-B"): "green"}     # unrelated entries untouched
    return d == want and res is True


def _placement_eff(ex, a):
    pos = {"S": (0.0, 0.0), "X": (2.0, 0.0), "Y": (4.0, 0.0)}[a.entity_id]
    p = SObj(["EntityPlacement"], "plc_" + a.entity_id, lazy=False)
    p._fields["position"] = pos
    return p


get_plc = Contract(qualname="dsl_compiler/src/layout/layout_plan.py::LayoutPlan.get_placement", params={"self": _OP2, "entity_id": _OP2}, effect=_placement_eff, verify=False, note="scenario positions")
mst_fanout = Contract(
    qualname=CPL + "_apply_mst_to_source_fanout",
    params={"self": ty.TObj("ConnectionPlanner", only=("ConnectionPlanner",)), "source_id": ty.TConcrete("S"), "sink_ids": ty.TConcrete(["X", "Y"]),
            "signal_name": ty.TConcrete("signal-A"), "wire_color": ty.TConcrete("red")},
    ensures=[("logical edges and uncoloured hops get the tree's colour; an already coloured real edge keeps its colour", _mst_post)],
    uses={"ConnectionPlanner._build_minimum_spanning_tree": mst_tree, "ConnectionPlanner._route_mst_edge": route_edge, "opaque.get_placement": get_plc,
          "LayoutPlan.get_placement": get_plc, "ConnectionPlanner._get_connection_side": "skip", "ConnectionPlanner.get_network_id_for_edge": "skip", "opaque.info": "skip"},
    dynamic_types={"self": {"_edge_wire_colors": ty.TConcrete({("X", "Y", "signal-A"): "green", ("Q", "R", "signal-B"): "green"}),
                            "relay_network": ty.TObj("RelayNetwork", only=("RelayNetwork",)), "layout_plan": ty.TObj("LayoutPlan", only=("LayoutPlan",)),
                            "diagnostics": ty.TOpaque("diag")},
                   "self.relay_network": {"span_limit": ty.TConcrete(9.0)}},
    properties=("C10", "C01"), min_obligations=1, no_replay=True, note="concrete scenario S -> {X, Y}, hop X-Y already green",
)
CONTRACTS += [mst_fanout, mst_tree, route_edge, get_plc]

# =================================================================================================
# ConstantPropagationOptimizer.optimize — folding of a single-condition decider whose two compared operands are anonymous
# constants.  Scenario (concrete node list, symbolic values): constants a, b, a value node v, decider d = (a CMP b) : v.
#   v an anonymous constant V : d is replaced by one constant of value (a CMP b ? V : 0)  — V = 0 included
#   v a run-time signal       : d stays when a CMP b holds (it passes v through), becomes the constant 0 otherwise
#   v a declared input        : d stays (inputs are never folded through)
# =================================================================================================
CPO = "dsl_compiler/src/ir/optimizer.py::ConstantPropagationOptimizer."


def _mk_const_t(declared):
    return ty.TObj("IRConst", only=("IRConst",), ftypes=(("value", ty.Int), ("signals", ty.TConcrete({})), ("debug_metadata", ty.TConcrete({"user_declared": True} if declared else {})),
                                                          ("debug_label", ty.TConcrete(None)), ("output_type", ty.TConcrete("signal-A")), ("source_ast", ty.TConcrete(None))))


def _ref_t(nid):
    return ty.TObj("SignalRef", only=("SignalRef",), ftypes=(("source_id", ty.TConcrete(nid)), ("signal_type", ty.TConcrete("signal-A")),
                                                             ("debug_label", ty.TConcrete(None)), ("source_ast", ty.TConcrete(None)), ("debug_metadata", ty.TConcrete({}))))


def _fold_scenario(op, kind):
    v_node = {"const": _mk_const_t(False), "input": _mk_const_t(True),
              "signal": ty.TObj("IRArith", only=("IRArith",), ftypes=(("left", _ref_t("x")), ("right", ty.Int), ("op", ty.TConcrete("+")), ("debug_metadata", ty.TConcrete({})),
                                                                    ("output_type", ty.TConcrete("signal-A"))))}[kind]
    dec = ty.TObj("IRDecider", only=("IRDecider",), ftypes=(
        ("left", _ref_t("a")), ("right", _ref_t("b")), ("output_value", _ref_t("v")), ("test_op", ty.TConcrete(op)), ("conditions", ty.TConcrete([])),
        ("copy_count_from_input", ty.TConcrete(True)), ("output_type", ty.TConcrete("signal-A")), ("debug_label", ty.TConcrete("r")),
        ("debug_metadata", ty.TConcrete({"name": "r"})), ("source_ast", ty.TConcrete(None))))
    nodes = (("a", _mk_const_t(False)), ("b", _mk_const_t(False)), ("v", v_node), ("d", dec))

    def post(a, res):
        from spec import arith32 as A
        ops_in = {n: o for n, o in zip("abvd", a.ir_operations)}
        truth = A.cmp(op, ops_in["a"].value, ops_in["b"].value)
        ids = [o.node_id for o in res]
        folded = [o for o in res if o.node_id == "d_folded"]
        d_kept = "d" in ids
        if kind == "const":
            if d_kept or len(folded) != 1:
                return False
            return folded[0].value == z3.If(truth, ops_in["v"].value, 0)
        if kind == "input":
            return d_kept and not folded
        # run-time value
        if d_kept:
            return And(truth, not folded)
        return And(Not(truth), len(folded) == 1, folded[0].value == 0 if folded else False)

    def set_ids(a):
        for n, o in zip("abvd", a.ir_operations):
            o._fields["node_id"] = n
        return True

    return Contract(
        qualname=CPO + "optimize",
        params={"self": ty.TObj("ConstantPropagationOptimizer", only=("ConstantPropagationOptimizer",)), "ir_operations": ty.TTuple(tuple(t for _n, t in nodes))},
        requires=[("(node ids a, b, v, d)", set_ids)],
        ensures=[("(a CMP b) : v folds to the constant (CMP ? V : 0) for a constant v, stays for an input v, stays / folds to 0 for a run-time v", post)],
        uses={"ConstantPropagationOptimizer._maybe_mark_dead": "skip", "ConstantPropagationOptimizer._update_references": "inline",
              "ConstantPropagationOptimizer._update_value": "inline", "fn:_map_operands": "inline",
              "ConstantPropagationOptimizer._is_user_declared_operand": "inline", "ConstantPropagationOptimizer._get_const_value": "inline",
              "ConstantPropagationOptimizer._fold_comparison": "inline", "ConstantPropagationOptimizer._fold_arithmetic": "inline"},
        dynamic_types={"self": {"dead_nodes": ty.TConcrete(set()), "replacements": ty.TConcrete({})}},
        properties=("C10", "C11", "C17"), min_obligations=1, no_replay=True, note=f"d = (a {op} b) : v with v a {kind}")


for _op in ("<", "==", ">="):
    for _kind in ("const", "input", "signal"):
        CONTRACTS.append(_fold_scenario(_op, _kind))

# =================================================================================================
# CSEOptimizer.optimize on a concrete node list (symbolic values): exactly the true duplicate is removed.
#   x, y  : two declared inputs with the SAME initial value and type      (must stay two operands)
#   a1 = x * 3, a2 = x * 3                                                 (a2 is the duplicate of a1)
#   a3 = x * 3 on another output type                                      (stays)
#   a4 = y * 3                                                             (stays: other operand, although equal-valued)
#   d1 = (x > 7) : 1 ,  d2 = (7 <= x) : 1 written constant-first          (stays: another comparison)
# =================================================================================================
CSEQ = "dsl_compiler/src/ir/optimizer.py::CSEOptimizer."


def _arith_t(left_id, out_type, label=None, metadata=None):
    return ty.TObj("IRArith", only=("IRArith",), ftypes=(("left", _ref_t(left_id)), ("right", ty.TConcrete(3)), ("op", ty.TConcrete("*")), ("output_type", ty.TConcrete(out_type)),
                                                        ("debug_metadata", ty.TConcrete(dict(metadata or {}))), ("needs_wire_separation", ty.TConcrete(False)),
                                                        ("debug_label", ty.TConcrete(label))))


def _dec_t(op, left, right):
    return ty.TObj("IRDecider", only=("IRDecider",), ftypes=(("left", left), ("right", right), ("output_value", ty.TConcrete(1)), ("test_op", ty.TConcrete(op)),
                                                            ("conditions", ty.TConcrete([])), ("copy_count_from_input", ty.TConcrete(False)), ("output_type", ty.TConcrete("signal-A")),
                                                            ("debug_metadata", ty.TConcrete({})), ("debug_label", ty.TConcrete(None))))


def _cse_nodes(first_label):
    return (("x", _mk_const_t(True)), ("y", _mk_const_t(True)), ("a1", _arith_t("x", "signal-A", first_label, {"name": first_label} if first_label else {})),
            ("a2", _arith_t("x", "signal-A", "twin", {"name": "twin", "location": "line 9"})),
            ("a3", _arith_t("x", "signal-B")), ("a4", _arith_t("y", "signal-A")),
            ("d1", _dec_t(">", _ref_t("x"), ty.TConcrete(7))), ("d2", _dec_t("<=", ty.TConcrete(7), _ref_t("x"))))


_CSE_NODES = _cse_nodes(None)


def _cse_ids(a):
    for (n, _t), o in zip(_CSE_NODES, a.ir_operations):
        o._fields["node_id"] = n
    # the two inputs start out equal
    return a.ir_operations[0].value == a.ir_operations[1].value


def _cse_post(first_label):
    def post(a, res):
        ids = [o.node_id for o in res]
        if not (ids == ["x", "y", "a1", "a3", "a4", "d1", "d2"] and a.self.replacements == {"a2": "a1"}):
            return False
        kept = res[2]
        md = kept.debug_metadata
        # the names of the eliminated twin stay findable (C20): its id is recorded on the kept node, and an ANONYMOUS kept node takes its name over; a named one keeps its own
        if md.get("cse_merged_ids") != ["a2"]:
            return False
        if first_label is None:
            return kept.debug_label == "twin" and md.get("name") == "twin" and md.get("location") == "line 9"
        return kept.debug_label == first_label and md.get("name") == first_label
    return post


for _first in (None, "first"):
    CONTRACTS.append(Contract(
        qualname=CSEQ + "optimize",
        params={"self": ty.TObj("CSEOptimizer", only=("CSEOptimizer",)), "ir_operations": ty.TTuple(tuple(t for _n, t in _cse_nodes(_first)))},
        requires=[("(node ids; the two inputs have equal initial values)", _cse_ids)],
        ensures=[("only the node that repeats operator, operands, output type and mode of an earlier one is removed; its id is recorded on the kept node, which takes its name when it has none",
                  _cse_post(_first))],
        uses={"CSEOptimizer._make_key": "inline", "CSEOptimizer._value_key": "inline", "CSEOptimizer._update_references": "inline", "CSEOptimizer._update_value": "inline",
              "CSEOptimizer._inherit_names": "inline", "fn:_map_operands": "inline"},
        dynamic_types={"self": {"expr_cache": ty.TConcrete({}), "replacements": ty.TConcrete({})}},
        properties=("C10", "C01", "C12", "C02", "C20"), min_obligations=1, no_replay=True, note=f"concrete node list of 8 nodes; the kept twin is {'named' if _first else 'anonymous'}",
    ))
cse_scenario = CONTRACTS[-1]


# =================================================================================================
# optimizer._map_operands(op, fn) — THE list of places where one IR node reads another (liveness in constant propagation and
# reference rewriting in both passes go through it): every operand of every kind of node is replaced by fn(operand), in its
# own place, and nothing else on the node changes.  An operand this function does not visit would be left pointing at a node
# CSE removed, or would not keep its producer alive.
# The function is a case distinction over the node KINDS and is parametric in the operands, so evaluating it on the REAL function
# for one node of every kind (all operand places filled with distinct marker objects, conditions with and without operands) with
# a tagging fn covers its behaviour; it is still counted as a bounded stand-in.
# _update_value (both passes): a reference to a replaced node becomes a reference to the canonical node on the SAME signal type
# (label and metadata kept); everything else is returned as it is.  (P, unbounded.)
# =================================================================================================
MOQ = "dsl_compiler/src/ir/optimizer.py::_map_operands"


class _Marker:
    def __init__(self, name):
        self.name = name

    def __repr__(self):
        return f"<{self.name}>"


def _tag(v):
    return ("mapped", v)


def _snapshot(op):
    d = dict(vars(op))
    if "conditions" in d:
        d["conditions"] = [dict(vars(c)) for c in d["conditions"]]
    if "sources" in d:
        d["sources"] = list(d["sources"])
    return d


def _map_post(a, res):
    op, sc = a.op, a.op._scenario
    before = sc["before"]
    after = _snapshot(op)
    for field, expect in sc["expect"].items():
        if after[field] != expect(before[field]):
            return False
    for field in before:
        if field in sc["expect"] or field == "_scenario":
            continue
        if field == "conditions":
            for b, c in zip(before["conditions"], after["conditions"]):
                for k in b:
                    want = _tag(b[k]) if k in ("first_operand", "second_operand") and b[k] is not None else b[k]
                    if c[k] != want and not (c[k] is want):
                        return False
            continue
        if after[field] is not before[field] and after[field] != before[field]:
            return False
    return True


map_operands = Contract(qualname=MOQ, params={"op": ty.TOpaque("node"), "fn": ty.TOpaque("fn")},
                        ensures=[("every operand place of the node holds fn(old operand); nothing else changed", _map_post)],
                        verify=False, properties=("C10",), note="evaluated on the real function over an enumerated box (bounded stand-in)")
CONTRACTS.append(map_operands)


def map_operands_arg_sets():
    from dsl_compiler.src.ir import nodes as N
    M = _Marker
    out = []

    def add(op, expect):
        before = _snapshot(op)
        op._scenario = {"before": before, "expect": expect}
        out.append({"op": op, "fn": _tag})

    one = lambda: (lambda v: _tag(v))  # noqa: E731
    a = N.IRArith("a", "signal-A"); a.left, a.right = M("l"), M("r")
    add(a, {"left": one(), "right": one()})
    for conds in ([], [N.DeciderCondition(comparator=">", first_operand=M("c1l"), second_operand=M("c1r")), N.DeciderCondition(comparator="<", first_signal="signal-S", second_constant=4),
                       N.DeciderCondition(comparator="=", first_operand=M("c3l"), second_constant=0)]):
        d = N.IRDecider("d", "signal-A"); d.left, d.right, d.output_value, d.conditions = M("l"), M("r"), M("ov"), conds
        add(d, {"left": one(), "right": one(), "output_value": one()})
    w = N.IRWireMerge("w", "signal-A"); w.sources = [M("s0"), M("s1"), M("s2")]
    add(w, {"sources": lambda old: [_tag(x) for x in old]})
    add(N.IRMemWrite("m", M("data"), M("enable")), {"data_signal": one(), "write_enable": one()})
    for sc_, rc_ in ((None, None), ((M("sig"), "<", 20), (M("sig2"), ">=", 80)), ((M("sig"), "<", 20), None)):
        lw = N.IRLatchWrite("m", M("value"), M("set"), M("reset"), "sr_latch", set_condition=sc_, reset_condition=rc_)
        add(lw, {"value": one(), "set_signal": one(), "reset_signal": one(),
                 "set_condition": lambda old: None if old is None else (_tag(old[0]), *old[1:]), "reset_condition": lambda old: None if old is None else (_tag(old[0]), *old[1:])})
    add(N.IREntityPropWrite("e", "enable", M("value")), {"value": one()})
    add(N.IRPlaceEntity("e", "small-lamp", M("x"), M("y"), {"k": 1}), {"x": one(), "y": one()})
    # kinds without operands: untouched
    c = N.IRConst("c", "signal-A"); c.value = 5
    add(c, {})
    r = N.IRMemRead("r", "signal-A"); r.memory_id = "m"
    add(r, {})
    add(N.IRMemCreate("m", "signal-A", None, "standard"), {})
    return out


def _uv_post(a, res):
    v = a.value
    if not isinstance(v, SObj):
        return ops.eq(res, v)
    canonical = z3.Select(a.self.replacements.vals, v.source_id)
    replaced = And(z3.Select(a.self.replacements.present, v.source_id), z3.Length(canonical) > 0)
    if res is v:
        return Not(replaced)
    return And(replaced, isa(res, "SignalRef"), res.signal_type is v.signal_type, res.source_id == canonical, res.debug_label is v.debug_label,
               res.debug_metadata == v.debug_metadata)  # a copy of the metadata


for _cls in ("ConstantPropagationOptimizer", "CSEOptimizer"):
    CONTRACTS.append(Contract(
        qualname=f"dsl_compiler/src/ir/optimizer.py::{_cls}._update_value",
        params={"self": ty.TObj(_cls, only=(_cls,)), "value": ty.TUnion((ty.Int, ty.TObj("SignalRef", only=("SignalRef",))))},
        ensures=[("a reference to a replaced node becomes a reference to its canonical node on the same type; everything else is returned unchanged", _uv_post)],
        dynamic_types={"self": {"replacements": ty.TDict(ty.Str, ty.Str)}, "value": {"debug_label": ty.TOpt(ty.Str), "debug_metadata": ty.TConcrete({}), "source_ast": ty.TConcrete(None)}},
        properties=("C10",), min_obligations=2, no_replay=True))


# =================================================================================================
# ConnectionPlanner._build_minimum_spanning_tree (callee of the fan-out contract above): the edges returned form a spanning TREE
# of the entities that have a position — every such entity reached, no cycle, grown from the first one (the source), of minimal
# total wire length — and entities without a position are left out.  Evaluated on the REAL method over an enumerated box
# (2..5 entities on a small grid, some without a position): bounded.
# =================================================================================================
MSTQ = "dsl_compiler/src/layout/connection_planner.py::ConnectionPlanner._build_minimum_spanning_tree"


def _mst_post(a, res):
    import math
    pos = a.self._scenario["positions"]
    valid = [e for e in a.entity_ids if pos.get(e) is not None]
    if len(valid) <= 1:
        return list(res) == []
    if len(res) != len(valid) - 1:
        return False
    reached = {valid[0]}
    for u, v in res:
        if u not in reached or v in reached or v not in valid:
            return False          # not grown from the tree / closes a cycle / unknown entity
        reached.add(v)
    if reached != set(valid):
        return False
    # minimal total length (Prim from scratch, own implementation)
    tree, total = {valid[0]}, 0.0
    while len(tree) < len(valid):
        d, w = min((math.dist(pos[x], pos[y]), y) for x in tree for y in valid if y not in tree)
        total += d
        tree.add(w)
    got = sum(math.dist(pos[u], pos[v]) for u, v in res)
    return abs(got - total) < 1e-9


mst = Contract(qualname=MSTQ, params={"self": ty.TOpaque("planner"), "entity_ids": ty.TOpaque("ids")},
               ensures=[("a spanning tree of the positioned entities, grown from the first, of minimal total length", _mst_post)],
               verify=False, properties=("C10", "C08"), note="evaluated on the real method over an enumerated box (bounded stand-in)")
CONTRACTS.append(mst)


def mst_arg_sets():
    import itertools
    from dsl_compiler.src.layout.connection_planner import ConnectionPlanner
    from dsl_compiler.src.layout.layout_plan import LayoutPlan
    grid = [(0.5, 1.0), (3.5, 1.0), (0.5, 5.0), (6.5, 5.0), (3.5, 9.0), (10.5, 1.0)]
    out = []
    for n in (1, 2, 3, 4, 5):
        for pts in itertools.permutations(grid, n):
            if n >= 4 and hash(pts) % 7:
                continue   # thin the larger layers
            for missing in (None, 0, n - 1):
                plan = LayoutPlan()
                ids = [f"e{i}" for i in range(n)]
                positions = {}
                for i, (eid, p) in enumerate(zip(ids, pts)):
                    position = None if missing == i else p
                    plan.create_and_add_placement(ir_node_id=eid, entity_type="arithmetic-combinator", position=position, footprint=(1, 2), role="x", debug_info={})
                    positions[eid] = position
                cp = object.__new__(ConnectionPlanner)
                cp.layout_plan = plan
                cp._scenario = {"positions": positions}
                out.append({"self": cp, "entity_ids": ids + (["ghost"] if missing is None and n == 2 else [])})
    return out
