#!/usr/bin/env python3
"""Apply a patch to a scratch copy of /repo and run checks against it (never touches /repo).

usage: tools/mutcheck.py PATCH.diff C11 [C16 ...] [--tier quick] [--keep]
Prints one line per property: <id> exit=<code> violations=<n> ; exit status 0 iff every listed
property reports a violation (exit 1) on the patched copy.
"""
import json
import os
import shutil
import subprocess
import sys
import tempfile
from pathlib import Path

VERIF = Path(__file__).resolve().parent.parent


def make_copy(dst):
    # tracked files of the working tree, via git (respects current edits)
    subprocess.run(f"cd /repo && git ls-files -z | grep -zv '^doc/' | xargs -0 cp --parents -t {dst}", shell=True, check=True)


def run(patch, props, tier="quick", keep=False, verbose=False):
    tmp = Path(tempfile.mkdtemp(prefix="mut_", dir=os.environ.get("TMPDIR", "/tmp")))
    repo = tmp / "repo"
    repo.mkdir()
    out = {}
    try:
        make_copy(repo)
        if patch:
            r = subprocess.run(["git", "apply", "--unsafe-paths", "--directory", str(repo), str(Path(patch).resolve())],
                               cwd="/", capture_output=True, text=True)
            if r.returncode != 0:
                r = subprocess.run(["patch", "-p1", "-d", str(repo), "-i", str(Path(patch).resolve())], capture_output=True, text=True)
                if r.returncode != 0:
                    raise RuntimeError("patch does not apply: " + r.stdout + r.stderr)
        env = dict(os.environ, FACTO_REPO=str(repo), VERIF_OUT=str(tmp / "out"))
        for p in props:
            r = subprocess.run([str(VERIF / "check"), p, "--tier", tier], capture_output=True, text=True, env=env)
            viol = [l for l in r.stdout.splitlines() if l.startswith("VIOLATION")]
            out[p] = {"exit": r.returncode, "violations": len(viol), "first": viol[:3],
                      "tail": r.stdout.splitlines()[-6:] if verbose or r.returncode not in (0, 1) else []}
    finally:
        if not keep:
            shutil.rmtree(tmp, ignore_errors=True)
    return out


if __name__ == "__main__":
    args = [a for a in sys.argv[1:] if not a.startswith("--")]
    tier = "thorough" if "--thorough" in sys.argv else "quick"
    res = run(args[0] if args[0] != "-" else None, args[1:], tier, "--keep" in sys.argv, "-v" in sys.argv or "--verbose" in sys.argv)
    ok = True
    for p, r in res.items():
        print(p, f"exit={r['exit']} violations={r['violations']}", *r["first"], *r["tail"], sep="\n  ")
        ok = ok and r["exit"] == 1
    sys.exit(0 if ok else 1)
