#!/bin/bash
# tools/confirm_seed.sh <seed-dir-name>   (e.g. C10-1)
# Confirms a seeded change independently: in a scratch worktree of /repo at the commit the patch was
# written against, the demo must PASS, with the patch applied it must FAIL, and the full test suite
# must give the unchanged tree's pass/fail set.  Writes seeded/<name>/confirm.json; removes the worktree.
set -u
name=$1
base=${2:-2f70a72}
dir=/verif/seeded/$name
wt=/tmp/cs_$name
git -C /repo worktree remove --force $wt >/dev/null 2>&1
git -C /repo worktree add -q --detach $wt $base || exit 2
cd $wt
timeout 1200 /venv/bin/python $dir/demo.py > $dir/demo_clean.out 2>&1; clean_rc=$?
git apply $dir/patch.diff || { echo "patch does not apply at $base"; git -C /repo worktree remove --force $wt; exit 2; }
timeout 1200 /venv/bin/python $dir/demo.py > $dir/demo_patched.out 2>&1; patched_rc=$?
/venv/bin/python -m pytest -q -p no:cacheprovider -n ${NPYTEST:-8} --timeout=900 --reruns 2 --only-rerun "timed out" --only-rerun "Timeout" > $dir/suite_patched.out 2>&1
summary=$(tail -1 $dir/suite_patched.out)
failed=$(grep -E "^FAILED" $dir/suite_patched.out | sed 's/ - .*//' | sort | tr '\n' ';')
git checkout -q -- . ; git clean -fdq
cd /; git -C /repo worktree remove --force $wt
python3 - "$name" "$clean_rc" "$patched_rc" "$summary" "$failed" "$base" <<'PY'
import json,sys
name,clean,patched,summary,failed,base=sys.argv[1:7]
known={"tests/test_cli.py::TestCliCoverageGaps::test_write_file_error_unwritable_directory","tests/test_cli.py::TestCliCoverageGaps::test_read_file_error_unreadable_file"}
f=[x.replace("FAILED ","") for x in failed.split(";") if x]
extra=[x for x in f if x not in known]
json.dump({"seed":name,"base_commit":base,"demo_on_clean_tree_exit":int(clean),"demo_with_patch_exit":int(patched),
 "suite_with_patch":summary.strip(),"suite_failures_beyond_known_root_permission_tests":extra,
 "confirmed": int(clean)==0 and int(patched)==1 and not extra}, open(f"/verif/seeded/{name}/confirm.json","w"), indent=1)
print(open(f"/verif/seeded/{name}/confirm.json").read())
PY
