#!/bin/bash
# Runs every registered check (quick by default) and prints one summary line per property.
tier=${1:-quick}
cd "$(dirname "$0")/.."
for p in $(python3 -c "import json;print(' '.join(c['property_id'] for c in json.load(open('MANIFEST.json'))['checks']))"); do
  s=$(date +%s); out=$(./check $p --tier $tier 2>&1); rc=$?; e=$(( $(date +%s) - s ))
  echo "$p exit=$rc ${e}s $(echo "$out" | grep -c '^VIOLATION') violations $(echo "$out" | grep -c '^KNOWN-FINDING') known | $(echo "$out" | grep '^\[' | cut -c1-150)"
  if [ $rc -ne 0 ]; then echo "$out" | grep -E "^(VIOLATION|UNDECIDED|CHECKER)" | head -5 | cut -c1-250; fi
done
