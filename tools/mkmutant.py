#!/usr/bin/env python3
"""tools/mkmutant.py <name> <repo-relative file> <old text> <new text>: writes selftest/<name>.diff (a hand-made mutant of /repo's
current source, first occurrence of <old text> replaced).  The diff is what tools/selftest.py applies to a scratch copy."""
import difflib, sys
from pathlib import Path

name, rel, old, new = sys.argv[1:5]
src = Path("/repo", rel).read_text()
if src.count(old) < 1:
    sys.exit(f"{name}: text not found in {rel}")
mut = src.replace(old, new, 1)
diff = "".join(difflib.unified_diff(src.splitlines(True), mut.splitlines(True), f"a/{rel}", f"b/{rel}"))
Path(__file__).resolve().parent.parent.joinpath("selftest", name + ".diff").write_text(diff)
print(name, "written")
