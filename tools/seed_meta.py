#!/usr/bin/env python3
"""Writes seeded/<id>/meta.json from the table below plus confirm.json (tools/confirm_seed.sh)."""
import json, os
T = {
 "C01-1": ("C01", "expression_lowerer.py::_is_boolean_producer treats every decider as 0/1", "a conditional value (cond : v) used directly as operand of && / || with v outside {0,1} (negative for ||)", ["C01: P contract _is_boolean_producer (no-failing-input-found) + e2e-expressions dag8"]),
 "C01-2": ("C01", "optimizer.py::CSEOptimizer._make_key drops output_type from the arithmetic key", "optimisation on + the same arithmetic sub-expression twice, one occurrence projected to another type", ["C10: P pair lemma on _make_key (replayed on the real function)", "C10: e2e-optimisation cse-proj"]),
 "C02-1": ("C02", "planner.py::_inject_output_value_wire_color looks the gate's copied value up under signal-each only", "two-level bundle gating (t > 0) : ((s > 2) : b)", ["C02: e2e-bundles gate-nested (added after the miss)"]),
 "C02-2": ("C02", "statement_lowerer.py::lower_decl_stmt marks a named bundle user_declared only for IRConst", "named computed bundle + selection c[\"t\"] projected onto another type", ["C02: e2e-bundles select-projected (added after the miss)"]),
 "C03-1": ("C03", "expression_lowerer.py::lower_identifier hands out a fresh SignalRef copy per use", "a comparison stored in a variable, used as when= of one cell and again elsewhere", ["C03: gated-cells shared-enable-var / enable-used-in-data"]),
 "C03-2": ("C03", "optimizer.py::CSEOptimizer._make_key drops output_type from the decider key", "optimisation on + the comparison of when= appears textually earlier as a value", ["C10: P pair lemma on _make_key", "C03: gated-cells dup-comparison-earlier"]),
 "C04-1": ("C04", "memory_builder.py::_optimize_to_arithmetic_feedback drops the loop that replaces read sources", "f with >= 2 steps + a reader adding the cell to a same-typed arithmetic value", ["C04: iteration reader-adds-same-type"]),
 "C04-2": ("C04", "connection_planner.py::_find_bidirectional_pairs ignores self-loops", "single-step loop + an arithmetic reader of the cell before the write + another consumer, optimisation on", ["C04: iteration reader-before-write"]),
 "C05-1": ("C05", "memory_lowerer.py::_extract_simple_comparison accepts constant-left comparisons without mirroring the operator", "latch with set/reset comparisons on one input, a literal on the left", ["C05: latches const-left-sr"]),
 "C05-2": ("C05", "memory_builder.py::_handle_latch_write_standard skips the set remap for set-priority latches", "set-first latch, non-inlined path, set and reset on the same signal type different from the cell's", ["C05: latches same-type-cmp-sr"]),
 "C06-1": ("C06", "expression_lowerer.py::_is_simple_source_ref admits IREntityOutput to wire merges", "the same chest read through two separate .output expressions and added", ["C06: e2e-entity-conditions chest-twice / chest-two-vars"]),
 "C06-2": ("C06", "entity_placer.py::_try_inline_comparison inlines deciders with any non-zero constant output", "entity.enable = (x > 3) : -2", ["C06: e2e-entity-conditions '(x > 3) : -2'"]),
 "C07-1": ("C07", "emitter.py::_materialize_connections de-duplicates wires by (source, sink, colour) ignoring sides", "two wires between the same ordered pair of combinators (MST chaining through an input)", ["C07: cli-matrix two-wires-same-pair"]),
 "C07-2": ("C07", "entity_emitter.py::_configure_decider loses the wire filter after the constant-first swap", "(5 < a) : b with a, b on the same signal from different sources", ["C07: cli-matrix const-left-filter", "C01: dag11 (added)"]),
 "C08-1": ("C08", "connection_planner.py::_find_or_create_relay_near reuses a relay without can_route_network", "two long same-colour connections from different sources whose relay positions are within 3 tiles", ["C08: P AST guard obligation on _find_or_create_relay_near (added later)", "C08: pasteable relay isolation (far-apart)"]),
 "C08-2": ("C08", "tile_grid.py::rebuild_from_placements treats user positions as top-left after layout", "multi-tile user entity + a relay whose ideal tile lies on the entity's top row / left column", ["C08: pasteable relay-near-machine (added after the miss)"]),
 "C09-1": ("C09", "expression_lowerer.py::_try_extract_const_value uses all(operands) (truthiness) for 'both constant'", "coordinate written as unary minus of a non-literal int that evaluates to 0", ["C09: e2e-placement neg-iterator / neg-var (added after the miss)"]),
 "C09-2": ("C09", "planner.py::_trim_power_poles deletes user-placed poles", "--power-poles T + a user-placed pole far from every other entity", ["C09: e2e-placement-poles user-poles (added after the miss)"]),
 "C10-1": ("C10", "connection_planner.py::_apply_mst_to_source_fanout overwrites the reverse edge colour", "same-type diamond x -> y, x -> z, y -> z with k = 3, 4 and optimisation on", ["C10: e2e-optimisation same-type-diamond (added after the miss)"]),
 "C10-2": ("C10", "optimizer.py::CSEOptimizer output key 'copy' for copy-count deciders", "two (cond) : x / (cond) : y with identical conditions and different same-typed sources", ["C10: P pair lemma (after auto-inlining small helpers)", "C10: e2e cse-copysrc"]),
 "C11-1": ("C11", "optimizer.py::_fold_arithmetic >> becomes a logical shift", "negative left operand folded at IR level (constant bound to a Signal parameter)", ["C11: P contract _fold_arithmetic op='>>' (replayed)"]),
 "C11-2": ("C11", "constant_folder.py::fold_binary_operation '/' ignores the divisor's sign", "compile-time division with negative dividend and divisor", ["C11: P contract fold_binary_operation op='/' (replayed)"]),
 "C12-1": ("C12", "connection_planner.py::_route_connection_with_relays looks the network id up under the wrong key (always 0)", "two unrelated long same-colour connections running close together", ["C12: e2e-interleavings far-apart (added; needs the witness-list form of KF-K7-crosstalk)", "C08: relay isolation"]),
 "C12-2": ("C12", "entity_placer.py::_place_constant shares one combinator between identical anonymous literals", "both computations use the same anonymous typed literal next to same-named signals", ["C12: e2e-interleavings same-literal (added; witness-list form of KF-K7-crosstalk)"]),
 "C13-1": ("C13", "signals.py::RESERVED_SIGNALS = frozenset((\"signal-W\")) (set of characters)", ">= 23 untyped values; the 23rd reaches a write-enable network", ["C13: e2e-implicit-signals many-untyped (chosen signal signal-W)"]),
 "C13-2": ("C13", "expression_lowerer.py::_try_fold_projection_into_source no longer records the projection target", "explicit signal only as target of a folded projection + untyped value on the same wire", ["C13: e2e-implicit-signals (freshness check of compiler-chosen signals)"]),
 "C14-1": ("C14", "analyzer.py::visit_FuncDecl stops analysing after the first top-level return", "rule violation inside a function body after the return statement", ["C14: ill-formed-embeddings func-after-return (added after the miss)"]),
 "C14-2": ("C14", "analyzer.py::_infer_bundle_literal_type forgets the signals of a flattened nested bundle", "duplicate signal type first introduced through a nested bundle", ["C14: ill-formed-embeddings bundle-duplicate#2..4 (added after the miss)"]),
 "C15-1": ("C15", "expression_lowerer.py::_resolve_constant_symbol falls through to globals for Signal-bound names", "Signal parameter/local shadowing a global int, in an otherwise constant expression", ["C15: e2e-calls"]),
 "C15-2": ("C15", "expression_lowerer.py::lower_function_call_inline restores signal_refs by filtering names", "callee local named like a caller variable that is read again after the call", ["C15: e2e-calls locals-shadow"]),
 "C16-1": ("C16", "statements.py::ForStmt.get_iteration_values closed-form count with floor division for descending ranges", "descending range whose step does not divide start - stop", ["C16: P contract drifts (loops replaced) -> bounded contract enumeration get_iteration_values-box decides", "C16: e2e-loops"]),
 "C16-2": ("C16", "expression_lowerer.py::_resolve_constant_symbol consults signal_refs before param_values", "call inside a loop body of a function whose parameter is named like the iterator", ["C16: e2e-loops param-shadows-iterator"]),
 "C17-1": ("C17", "preprocessor.py::preprocess_imports passes a copy of processed_files into the recursion", "diamond import graph", ["C17: import-graphs"]),
 "C17-2": ("C17", "expression_lowerer.py::_resolve_constant_symbol order (as C16-2)", "top-level int named like an int parameter of a math-library function", ["C17: library-calls bits-shadow / lerp-shadow (added after the miss)"]),
 "C18-1": ("C18", "power_planner.py::add_power_pole_grid bounding box accumulators start at +-inf", "--power-poles T with every user entity far from the origin", ["C18: power far-cluster ([no-poles] / [coverage-collapse])"]),
 "C18-2": ("C18", "emitter.py::_connect_pole_to_nearest drops the min(reach) test", "mixed pole kinds (grid pole + medium relay) at a distance between the two reaches", ["C18: power [copper-reach]"]),
 "C20-1": ("C20", "signal_analyzer.py::analyze skips alias bookkeeping for singly-named values", "optimisation on + named unreferenced result + identical anonymous sub-expression later", ["C20: e2e-named-results named-then-anonymous-twin (added after the miss)"]),
 "C20-2": ("C20", "expression_lowerer.py::lower_identifier marks names referenced before the parameter lookup", "unreferenced top-level alias named like a parameter of a called function", ["C20: e2e-named-results alias-named-like-param (added after the miss; also needed a fix of S3's consumed-name rule)"]),
}
for sid, (prop, change, needs, caught) in T.items():
    d = f"/verif/seeded/{sid}"
    if not os.path.isdir(d):
        continue
    conf = json.load(open(d + "/confirm.json")) if os.path.exists(d + "/confirm.json") else None
    meta = {"seed": sid, "property_broken": prop, "change": change, "needs_to_manifest": needs,
            "files": sorted(os.listdir(d)),
            "patch": "patch_ported.diff (re-based on the repaired tree; patch.diff is the sub-agent's original)" if os.path.exists(d + "/patch_ported.diff") else "patch.diff",
            "independent_confirmation": conf or "pending (tools/confirm_seed.sh)",
            "what_was_run": ["tools/confirm_seed.sh: demo on the clean base (exit 0), demo with patch (exit 1), full test suite with patch",
                             "tools/mutcheck.py <patch> <property>: checks against a scratch copy of /repo with the patch applied"],
            "caught_by": caught}
    json.dump(meta, open(d + "/meta.json", "w"), indent=1)
print("meta written for", len(T))
