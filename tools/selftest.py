#!/usr/bin/env python3
"""Vacuity / sensitivity self-test of the P tier: every patch under selftest/ (reverse patches of repaired
defects, hand-made mutants) is applied to a scratch copy of /repo and the contract named in the table must
report at least one violated obligation there.  A patch that still proves means the contract is vacuous or
too weak (this is how the two engine unsoundnesses of DESIGN 9.7 were found).

usage: tools/selftest.py [name-substring ...]     exit 0 iff every selected patch is refuted"""
import os, shutil, subprocess, sys, tempfile
from pathlib import Path

VERIF = Path(__file__).resolve().parent.parent
TABLE = {
    # patch: (contract module, qualname substring, note substring or None)
    "c01_builder_swaps_operands.diff": ("contracts.c02", "IRBuilder.arithmetic", None),
    "c01_not_as_ne.diff": ("contracts.c01", "lower_unary_op", None),
    "c01_input_const_boolean.diff": ("contracts.c01", "_is_boolean_producer", None),
    "c01_arith_op_operands_swapped.diff": ("contracts.c01c", "_lower_arithmetic_op", None),
    "c01_merge_result_ignored.diff": ("contracts.c01c", "_lower_arithmetic_op", None),
    "c01_logical_op_swapped.diff": ("contracts.c01c", "_lower_logical_op", None),
    "c02_bundle_power_spelling.diff": ("contracts.c01c", "_lower_bundle_op", None),
    "c06_entity_output_wrong_entity.diff": ("contracts.c01c", "lower_entity_output", None),
    "c09_dict_typed_literal_dropped.diff": ("contracts.c01c", "lower_dict_literal", "typed-literal"),
    "c15_type_access_variable_before_parameter.diff": ("contracts.c01c", "_resolve_signal_type", "x.type"),
    "c15_actual_type_wildcard_allowed.diff": ("contracts.c01c", "_get_actual_type_from_ref", None),
    "c01_chain_connective_swapped.diff": ("contracts.c01", "_try_fold_logical_chain", None),
    "c01_condvalue_semantic_type_first.diff": ("contracts.c01", "lower_output_spec_expr", "op <;"),
    "c02_no_wire_separation_flag.diff": ("contracts.c02", "bundle_arithmetic", None),
    "c02_bundle_constant_inlined.diff": ("contracts.c20b", "_decide_materialization", None),
    "c03_data_also_to_hold_gate.diff": ("contracts.c03", "_setup_standard_write", None),
    "c03_hold_gate_ge.diff": ("contracts.c03", "_create_standard_memory", None),
    "c04_fold_when_either.diff": ("contracts.c04", "MemoryBuilder.handle_write", None),
    "c05_reader_skips_multiplier.diff": ("contracts.c04", "MemoryBuilder.handle_read", None),
    "c05_multiplier_reads_both_wires.diff": ("contracts.c05", "_create_latch_multiplier", None),
    "c05_rs_hold_row_or.diff": ("contracts.c05", "_latch_placement", None),
    "c01_const_const_row_drops_left.diff": ("contracts.c07", "_configure_decider", "operation = <"),
    "c07_emit_entity_not_mapped.diff": ("contracts.c07", "emit_from_plan", None),
    "c07_emit_refused_placement_silent.diff": ("contracts.c07", "emit_from_plan", None),
    "c07_emit_appends_copy.diff": ("contracts.c07", "emit_from_plan", None),
    "c09_create_entity_shares_template.diff": ("contracts.c07", "create_entity", "template"),
    "c07_create_entity_writes_skipped.diff": ("contracts.c07", "create_entity", "template"),
    "c07_create_entity_constant_unconfigured.diff": ("contracts.c07", "create_entity", "constant-combinator"),
    "c07_arith_wires_swapped.diff": ("contracts.c07", "_configure_arithmetic", None),
    "c07_row_not_mirrored.diff": ("contracts.c07", "_configure_decider_multi_condition", None),
    "c07_placer_arith_operands_swapped.diff": ("contracts.c07b", "_place_arithmetic", None),
    "c07_placer_decider_copy_kept_for_inlined.diff": ("contracts.c07b", "_place_single_condition_decider", None),
    "c07_placer_constant_never_input.diff": ("contracts.c07b", "_place_constant", None),
    "c07_placer_decider_sink_missing.diff": ("contracts.c07b", "_place_single_condition_decider", None),
    "c07_placer_multi_second_sink_missing.diff": ("contracts.c07b", "_place_multi_condition_decider", "rows (ref CMP ref), (ref CMP int)"),
    "c07_placer_multi_connective_dropped.diff": ("contracts.c07b", "_place_multi_condition_decider", "rows (ref CMP ref), (ref CMP int)"),
    "c07_placer_multi_inlined_as_signal.diff": ("contracts.c07b", "_place_multi_condition_decider", "rows (ref CMP ref), (ref CMP int)"),
    "c01_merge_duplicate_producer_allowed.diff": ("contracts.c01b", "_attempt_wire_merge", "left simple, right simple"),
    "c01_merge_mixed_types_allowed.diff": ("contracts.c01b", "_attempt_wire_merge", "left simple, right simple"),
    "c01_merge_subtraction_merged.diff": ("contracts.c01b", "_attempt_wire_merge", "left simple, right simple"),
    "c01_merge_reuse_keeps_old_members.diff": ("contracts.c01b", "_attempt_wire_merge", "left own, right simple"),
    "c08_layout_final_failure_silent.diff": ("contracts.c08", "plan_layout", None),
    "c08_layout_no_retry.diff": ("contracts.c08", "plan_layout", None),
    "c08_layout_retry_keeps_state.diff": ("contracts.c08", "plan_layout", None),
    "c08_mark_occupied_row_only.diff": ("contracts.c08", "mark_occupied", None),
    "c14_zero_step_via_variable.diff": ("contracts.c14", "visit_ForStmt", "variable"),
    "c06_enable_integer_bare.diff": ("contracts.c16b", "lower_assign_stmt", "entity.property"),
    "c14_condition_either_side.diff": ("contracts.c14d", "_is_comparison_expr", "one operator"),
    "c14_condition_any_signal_name.diff": ("contracts.c14d", "_is_comparison_expr", "leaf"),
    "c01_outspec_int_value_never_left_type.diff": ("contracts.c14d", "_infer_output_spec_type", "BinaryOp"),
    "c14_outspec_non_condition_silent.diff": ("contracts.c14d", "_infer_output_spec_type", "NumberLiteral"),
    "c13_type_access_non_signal.diff": ("contracts.c14d", "resolve_signal_type_access", "x.type"),
    "c01_simplify_keeps_inner_type.diff": ("contracts.c14d", "_try_simplify_signal_projection", "1 projection"),
    "c14_bundle_duplicate_by_placeholder.diff": ("contracts.c02", "lower_bundle_literal", "SAME signal"),
    "c14_bundle_duplicate_not_reported.diff": ("contracts.c02", "lower_bundle_literal", "SAME signal"),
    "c20_bundle_from_call_not_declared.diff": ("contracts.c16b", "lower_decl_stmt", "function call"),
    "c03_constant_enable_bare_integer.diff": ("contracts.c03", "_lower_standard_write", None),
    "c03_enable_not_exported.diff": ("box", "contracts.c13:analyze_c:analyze_arg_sets", None),
    "c04_folded_cell_keeps_enable_constant.diff": ("box", "contracts.c04:cleanup_gates:cleanup_arg_sets", None),
    "c20_bundle_alias_not_collected.diff": ("e2e", 'Signal x = ("signal-A", 6);\nSignal y = ("signal-B", 2);\nBundle t = { x, y };\nBundle u = t * 2;\nBundle r = u;\nBundle p = t;\n', None),
    "c14_place_five_arguments_accepted.diff": ("contracts.c14d", "_validate_place_call", "5 arguments"),
    "c02_filter_result_shares_member_set.diff": ("contracts.c14d", "_infer_bundle_filter_type", None),
    "c14_entity_output_of_non_entity_silent.diff": ("contracts.c14d", "_infer_entity_output_type", None),
    "c14_write_keyed_by_scope.diff": ("contracts.c14c", "infer_expr_type", "m.write(v), v: SignalValue"),
    "c14_write_loop_needs_three.diff": ("contracts.c14c", "infer_expr_type", "m.write(v), v: SignalValue"),
    "c14_write_loop_inner_cell_refused.diff": ("contracts.c14c", "infer_expr_type", "m.write(v), v: SignalValue"),
    "c14_write_mismatch_only_warns.diff": ("contracts.c14c", "infer_expr_type", "m.write(v), v: SignalValue"),
    "c14_write_implicit_prefix_wide.diff": ("contracts.c14c", "infer_expr_type", "m.write(v), v: SignalValue"),
    "c14_write_non_memory_accepted.diff": ("contracts.c14c", "infer_expr_type", "m.write(v), v: BundleValue"),
    "c14_write_latch_reset_unchecked.diff": ("contracts.c14c", "infer_expr_type", "m.write(v, set=s, reset=r), v: BundleValue"),
    "c14_for_iterations_not_recorded.diff": ("contracts.c14", "visit_ForStmt", "literal"),
    "c14_lowering_written_not_recorded.diff": ("contracts.c05b", "lower_write_expr", None),
    "c14_lowering_second_write_lowered.diff": ("contracts.c05b", "lower_write_expr", None),
    "c14_define_shadows_in_inner_scope.diff": ("contracts.c14", "define", None),
    "c14_error_not_counted.diff": ("contracts.c14", "error", None),
    "c09_xy_swapped.diff": ("contracts.c09", "_place_user_entity", None),
    "c10_passthrough_decider_folded.diff": ("contracts.c10", "ConstantPropagationOptimizer.optimize", None),
    "c10_liveness_misses_consumers.diff": ("contracts.c10", "_maybe_mark_dead", None),
    "c16_iteration_scope_leaks.diff": ("contracts.c16", "lower_for_stmt", None),
    "c11_bundle_constant_scalar_value.diff": ("contracts.c11", "_get_const_value", None),
    "c11_merge_fold_not_wrapped.diff": ("contracts.c11", "_try_fold_wire_merge", None),
    "c16_iterator_leaks_into_outer.diff": ("contracts.c16", "lower_for_stmt", None),
    "c16_le.diff": ("contracts.c16", "get_iteration_values", None),
    "c03_declared_enable_is_constant.diff": ("contracts.c03", "_lower_standard_write", None),
    "c03_no_projection.diff": ("contracts.c03", "_lower_standard_write", None),
    # seeded changes (written by sub-agents from the property text alone) that touch a function under contract
    "../seeded/C11-1/patch.diff": ("contracts.c11", "_fold_arithmetic", None),
    "../seeded/C11-2/patch_ported.diff": ("contracts.c11", "fold_binary_operation", None),
    "../seeded/C10-2/patch_ported.diff": ("contracts.c10", "_make_key", None),
    "../seeded/C06-4/patch.diff": ("contracts.c06", "_try_inline_comparison", None),
    "../seeded/C05-3/patch.diff": ("contracts.c05", "_handle_latch_write_inlined", "rs_latch set <= reset >="),
    "../seeded/C15-3/patch.diff": ("contracts.c15", "_resolve_constant_symbol", None),
    "../seeded/C16-2/patch.diff": ("contracts.c15", "_resolve_constant_symbol", None),
    "../seeded/C20-4/patch.diff": ("contracts.c15", "lower_identifier", None),
    "../seeded/C20-3/patch.diff": ("contracts.c20", "create_output_anchors", None),
    "../seeded/C09-1/patch.diff": ("contracts.c09", "_try_extract_const_value", None),
    "../seeded/C08-2/patch.diff": ("contracts.c08", "rebuild_from_placements", "footprints (2, 2)"),
    "../seeded/C09-6/patch.diff": ("contracts.c09", "_trim_power_poles", "small"),
    "../seeded/C09-5/patch.diff": ("contracts.c15", "lower_function_call_inline", None),
    "../seeded/C03-5/patch.diff": ("contracts.c03", "lower_mem_decl", None),
    "../seeded/C13-6/patch.diff": ("contracts.c03", "_coerce_to_signal_type", None),
    "../seeded/C14-5/patch.diff": ("contracts.c14", "_infer_bundle_literal_type", "elements: bun('a',); siga; "),
    "../seeded/C05-2/patch.diff": ("contracts.c05", "_handle_latch_write_standard", "sr_latch"),
    "../seeded/C10-1/patch.diff": ("contracts.c10", "_apply_mst_to_source_fanout", None),
    "../seeded/C10-3/patch.diff": ("contracts.c10", "_apply_mst_to_source_fanout", None),
    "../seeded/C01-3/patch.diff": ("contracts.c10", "CSEOptimizer.optimize", None),
    "../seeded/C12-4/patch.diff": ("contracts.c10", "CSEOptimizer.optimize", None),
    "../seeded/C04-5/patch.diff": ("contracts.c04", "_find_first_memory_consumer", None),
    "../seeded/C05-4/patch.diff": ("contracts.c05", "_extract_simple_comparison", "5 CMP x with CMP = <"),
    "../seeded/C06-3/patch.diff": ("contracts.c06", "_is_simple_source_ref", "IREntityOutput"),
    "../seeded/C02-4/patch.diff": ("contracts.c02", "_inject_output_value_wire_color", "another gate"),
    "../seeded/C14-1/patch.diff": ("contracts.c14", "visit_FuncDecl", None),
    "../seeded/C07-1/patch.diff": ("contracts.c07", "_materialize_connections", None),
    "../seeded/C01-4/patch_ported.diff": ("contracts.c07", "_configure_decider", "operation = <"),
    "../seeded/C12-1/patch.diff": ("contracts.c12", "_route_connection_with_relays", None),
}
# patches refuted by an AST obligation (pyvc.guards): patch -> guard expression
_WIRES_FRAME = ('writes_only_through("dsl_compiler/src/layout/connection_planner.py", "wire_connections", "add_wire_connection", '
                '{"_create_relay_chain", "_restore_preserved_connection", "_add_self_feedback_connections"})')
TABLE.update({
    "c08_preserved_wires_not_bridged.diff": ("guard", _WIRES_FRAME, None),
    "c13_projection_folds_copy_decider.diff": ("contracts.c13", "_try_fold_projection_into_source", "0 variables"),
    "c13_projection_folds_named_value.diff": ("contracts.c13", "_try_fold_projection_into_source", "1 variables"),
    "../seeded/C13-2/patch.diff": ("contracts.c13", "_try_fold_projection_into_source", "0 variables"),
    "c11_int_variable_not_constant.diff": ("contracts.c16b", "lower_decl_stmt", "fresh producer"),
    "c20_declared_constant_not_marked.diff": ("contracts.c16b", "lower_decl_stmt", "fresh producer"),
    "c16_int_signal_decl_wrong_value.diff": ("contracts.c16b", "lower_decl_stmt", "fresh producer"),
    "../seeded/C02-2/patch_ported.diff": ("contracts.c16b", "lower_decl_stmt", "fresh producer"),
    "c02_bundle_const_shares_map.diff": ("contracts.c02", "IRBuilder.bundle_const", None),
    "c02_bundle_gate_outputs_each.diff": ("contracts.c02", "IRBuilder.bundle_gating_decider", None),
    "c02_bundle_filter_no_separation.diff": ("contracts.c02", "IRBuilder.bundle_decider", None),
    "c05_latch_write_set_reset_swapped.diff": ("contracts.c02", "IRBuilder.latch_write", None),
    "c09_place_entity_xy_swapped.diff": ("contracts.c02", "IRBuilder.place_entity", None),
    "c03_memory_write_enable_as_data.diff": ("contracts.c02", "IRBuilder.memory_write", None),
    "c05_lowering_conditions_swapped.diff": ("contracts.c05b", "_lower_latch_write_inlined", None),
    "c05_lowering_priority_inverted.diff": ("contracts.c05b", "_lower_latch_write_standard", None),
    "c05_lowering_reset_op_from_set.diff": ("contracts.c05b", "_try_extract_inline_conditions", None),
    "c05_lowering_different_signals_inlined.diff": ("contracts.c05b", "_try_extract_inline_conditions", None),
    "c05_lowering_dispatch_swaps_conditions.diff": ("contracts.c05b", "MemoryLowerer._lower_latch_write", None),
    "c05_lowering_latch_as_standard_write.diff": ("contracts.c05b", "lower_write_expr", None),
    "c03_read_wrong_cell_type.diff": ("contracts.c05b", "lower_read_expr", None),
    "c14_decl_mismatch_not_reported.diff": ("contracts.c14b", "visit_DeclStmt", None),
    "c14_decl_redefinition_swallowed.diff": ("contracts.c14b", "visit_DeclStmt", None),
    "c14_assign_immutable_allowed.diff": ("contracts.c14b", "visit_AssignStmt", "name = expression"),
    "c14_assign_undefined_entity_allowed.diff": ("contracts.c14b", "visit_AssignStmt", "entity.property"),
    "c14_call_arity_not_checked.diff": ("contracts.c14b", "visit_CallExpr", "function with 1 parameter"),
    "c14_call_recursion_allowed.diff": ("contracts.c14b", "visit_CallExpr", "function with 2 parameter"),
    "c14_call_bundle_argument_accepted.diff": ("contracts.c14b", "_is_compatible_argument", None),
    "c14_select_absent_member_accepted.diff": ("contracts.c14b", "_infer_bundle_select_type", None),
    "c14_reserved_signal_only_warns.diff": ("contracts.c14b", "_emit_reserved_signal_diagnostic", None),
    "c14_unknown_signal_accepted.diff": ("contracts.c14b", "validate_signal_type_with_error", None),
    "c14_memdecl_reserved_not_checked.diff": ("contracts.c14b", "visit_MemDecl", None),
    "c14_bundle_op_bundle_accepted.diff": ("contracts.c14b", "infer_binary_op_type", None),
    "c01_mixed_signals_use_right_type.diff": ("contracts.c14b", "_check_signal_type_compatibility", None),
    "c01_comparison_result_prefers_right.diff": ("contracts.c14b", "infer_binary_op_type", None),
    "c01_logical_result_not_comparison.diff": ("contracts.c14b", "infer_binary_op_type", None),
    "c06_inlined_entity_not_reader.diff": ("contracts.c06", "_place_entity_prop_write", "enable; no bundle"),
    "c06_signal_write_not_reader.diff": ("contracts.c06", "_place_entity_prop_write", "recipe; no bundle"),
    "c06_inline_for_any_property.diff": ("contracts.c06", "_place_entity_prop_write", "recipe; no bundle"),
    "c06_bundle_condition_constant_dropped.diff": ("contracts.c06", "_place_entity_prop_write", "enable; bundle condition"),
    "c01_projection_adds_one.diff": ("contracts.c01b", "_lower_projection_from_signal", None),
    "c01_projection_loses_declared_flag.diff": ("contracts.c01b", "_lower_projection_from_signal", None),
    "c13_projection_target_not_registered.diff": ("contracts.c01b", "_lower_projection_from_signal", None),
    "c01_projection_int_as_signal.diff": ("contracts.c01b", "lower_projection_expr", None),
    "c02_literal_mixed_drops_constants.diff": ("contracts.c02", "lower_bundle_literal", "elements: const, computed"),
    "c02_literal_nested_members_lost.diff": ("contracts.c02", "lower_bundle_literal", "elements: nested, computed"),
    "c02_literal_constant_value_zero.diff": ("contracts.c02", "lower_bundle_literal", "elements: const, const"),
    "c02_all_lowered_as_anything.diff": ("contracts.c02", "lower_bundle_all", None),
    "c02_select_reads_each.diff": ("contracts.c02", "lower_bundle_select", None),
    "c02_wildcard_ranges_over_scalar.diff": ("contracts.c02", "IRBuilder.decider", None),
    "c16_unknown_bound_defaults_to_zero.diff": ("contracts.c14b", "_resolve_for_loop_constant", None),
    "c01_const_row_le_as_lt.diff": ("contracts.c07", "_constant_comparison_row", "comparator <="),
    "c06_assign_prop_wrong_entity.diff": ("contracts.c16b", "lower_assign_stmt", "entity.property"),
    "c06_assign_inline_any_property.diff": ("contracts.c16b", "lower_assign_stmt", "entity.property"),
    "c20_assign_constant_not_declared.diff": ("contracts.c16b", "lower_assign_stmt", "name = expression"),
    "c06_inlined_any_as_everything.diff": ("contracts.c16b", "_lower_inlined_bundle_condition", "BundleAnyExpr"),
    "c06_inlinable_signal_right_side.diff": ("contracts.c16b", "_is_inlinable_bundle_condition", None),
    "c06_inlined_operator_fixed.diff": ("contracts.c16b", "_lower_inlined_bundle_condition", "BundleAllExpr"),
    "c01_integer_fold_becomes_signal.diff": ("e2e", 'Signal x = ("signal-A", 6);\nint a = 10;\nint b = 20;\nSignal r = (20 - 10) * x;\nSignal q = a + ((b - a) * x) / 100;\n', None),
    "c15_int_parameter_constant_as_signal.diff": ("contracts.c15", "lower_function_call_inline", None),
    "c01_runtime_literal_value_zero.diff": ("e2e", 'Signal x = ("signal-X", 5);\nSignal r = ("signal-A", x + 1);\nSignal q = r * 2;\n', None),
    "fixrev_9610d51.diff": ("contracts.c01", "_try_fold_logical_chain", "OP = ||; shape wild OP c2"),
    "fixrev_d21aece.diff": ("contracts.c02", "_lower_bundle_filter_output_spec", "output: constant"),
    "fixrev_d21aece_e2e.diff": ("e2e", 'Bundle b = { ("signal-C", 20), ("signal-D", 5) };\nint k = 6;\nBundle q = (b > 4) : k;\n', None),
    "fixrev_a711e42.diff": ("contracts.c02", "_lower_identifier_condition_output_spec", None),
    "fixrev_a711e42_e2e.diff": ("e2e", 'Signal x = ("signal-A", 6);\nBundle b = { ("signal-C", 20), ("signal-D", 5) };\nSignal c = x > 3;\nBundle g = c : b;\n', None),
    "c05_latch_dispatch_inverted.diff": ("contracts.c05", "MemoryBuilder.handle_latch_write", None),
    "c05_remapper_doubles.diff": ("contracts.c05", "_create_signal_remapper", None),
    "cdispatch_any_lowered_as_all.diff": ("contracts.cdispatch", "lower_expr", "class BundleAnyExpr"),
    "cdispatch_latch_write_as_plain_write.diff": ("contracts.cdispatch", "place_ir_operation", "class IRLatchWrite"),
    "c09_place_xy_from_swapped_arguments.diff": ("contracts.c09", "_extract_place_coordinates", None),
    "c09_place_value_materialised.diff": ("contracts.c09", "_lower_place_core", "3 arguments, prototype literal"),
    "c09_place_properties_dropped.diff": ("contracts.c09", "_lower_place_core", "4 arguments"),
    "c08_preserved_shares_network_zero.diff": ("contracts.c12", "_restore_preserved_connection", None),
    "c08_preserved_routing_failure_ignored.diff": ("contracts.c12", "_restore_preserved_connection", None),
    "c08_preserved_span_doubled.diff": ("contracts.c12", "_restore_preserved_connection", None),
})
# patches refuted by a contract evaluated on the real function over its enumerated box: "module:contract:arg_sets[:tier]"
TABLE.update({
    "c01_power_left_assoc.diff": ("box", "contracts.cparse:parse_c:parse_arg_sets", None),
    "c01_transformer_chain_right_fold.diff": ("box", "contracts.cparse:parse_c:parse_arg_sets", None),
    "c16_parse_range_bounds_swapped.diff": ("box", "contracts.cparse:statement_c:statement_arg_sets", None),
    "c16_parse_step_ignored.diff": ("box", "contracts.cparse:statement_c:statement_arg_sets", None),
    "c20_debug_info_declared_name_ignored.diff": ("box", "contracts.c20:build_debug_info:build_debug_info_arg_sets", None),
    "c20_debug_info_context_line_first.diff": ("box", "contracts.c20:build_debug_info:build_debug_info_arg_sets", None),
    "c11_octal_parsed_as_decimal.diff": ("box", "contracts.c11:parse_number:parse_number_arg_sets", None),
    "c11_constant_value_dropped.diff": ("contracts.c11", "_configure_constant", "scalar"),
    "c11_bundle_constant_slots_collide.diff": ("contracts.c11", "_configure_constant", "bundle constant of 2"),
    "c02_merge_membership_by_node_id.diff": ("box", "contracts.c07b:place_wire_merge:wire_merge_arg_sets", None),
    "c06_cleanup_keeps_stale_edges.diff": ("box", "contracts.c07b:cleanup_entities:cleanup_entities_arg_sets", None),
    "c01_sink_to_unmaterialised_constant.diff": ("contracts.c07b", "_add_signal_sink", None),
    "c06_entity_output_sourced_by_node.diff": ("contracts.c07b", "_place_entity_output", None),
    "c03_enable_not_locked_green.diff": ("box", "contracts.c02:locked_colors:locked_colors_arg_sets", None),
    "c02_gate_members_not_locked.diff": ("box", "contracts.c02:locked_colors:locked_colors_arg_sets", None),
    "c02_scalar_operand_locked_red.diff": ("box", "contracts.c02:locked_colors:locked_colors_arg_sets", None),
    "c04_feedback_not_locked.diff": ("box", "contracts.c02:locked_colors:locked_colors_arg_sets", None),
    "c08_plan_preserved_wires_dropped.diff": ("box", "contracts.c12:plan_connections_c:plan_connections_arg_sets", None),
    "c08_plan_always_succeeds.diff": ("box", "contracts.c12:plan_connections_c:plan_connections_arg_sets", None),
    "c12_plan_edge_lock_ignored.diff": ("box", "contracts.c12:plan_connections_c:plan_connections_arg_sets", None),
    "c02_expand_nested_merge_not_flattened.diff": ("box", "contracts.c12:expand_merges:expand_merges_arg_sets", None),
    "c12_expand_source_not_resolved.diff": ("box", "contracts.c12:expand_merges:expand_merges_arg_sets", None),
    "c02_expand_merge_origin_forgotten.diff": ("box", "contracts.c12:expand_merges:expand_merges_arg_sets", None),
    "c12_network_conflicts_not_added.diff": ("box", "contracts.c12:plan_colors:arg_sets(quick)", None),
    "c12_colouring_not_seeded_from_locks.diff": ("box", "contracts.c12:plan_colors:arg_sets(thorough)", None),
    "c02_each_wire_not_a_bundle_wire.diff": ("box", "contracts.c12:plan_colors:arg_sets(quick)", None),
    "c06_bundle_wire_conflict_ignored.diff": ("box", "contracts.c12:plan_colors:arg_sets(quick)", None),
    "c02_gate_bundle_back_on_green.diff": ("box", "contracts.c02:locked_colors:locked_colors_arg_sets", None),
    "c02_gate_condition_not_locked.diff": ("box", "contracts.c02:locked_colors:locked_colors_arg_sets", None),
    "c10_cse_merged_ids_not_recorded.diff": ("contracts.c10", "CSEOptimizer.optimize", "anonymous"),
    "c10_cse_anonymous_keeps_no_name.diff": ("contracts.c10", "CSEOptimizer.optimize", "anonymous"),
    "c20_merged_names_not_resolved.diff": ("box", "contracts.c20b:analyze_contract:analyze_arg_sets", None),
    "c02_edge_locks_string_order.diff": ("box", "contracts.c12:edge_locks:edge_locks_arg_sets", None),
    "c02_edge_locks_same_colour.diff": ("box", "contracts.c12:edge_locks:edge_locks_arg_sets", None),
    "c02_edge_locks_without_chain.diff": ("box", "contracts.c12:edge_locks:edge_locks_arg_sets", None),
    "c12_populate_ignores_planned_colour.diff": ("box", "contracts.c12:populate:populate_arg_sets", None),
    "c04_populate_feedback_pair_into_tree.diff": ("box", "contracts.c12:populate:populate_arg_sets", None),
    "c12_populate_groups_by_signal_only.diff": ("box", "contracts.c12:populate:populate_arg_sets", None),
    "c01_operand_colour_from_first_member.diff": ("box", "contracts.c02:inject_colors:inject_colors_arg_sets", None),
    "c01_operand_colour_ignores_graph.diff": ("box", "contracts.c02:inject_colors:inject_colors_arg_sets", None),
    "c01_condition_row_colour_not_injected.diff": ("box", "contracts.c02:inject_colors:inject_colors_arg_sets", None),
    "c02_bundle_member_colour_default.diff": ("box", "contracts.c02:inject_colors:inject_colors_arg_sets", None),
    "c09_user_position_as_hint_only.diff": ("box", "contracts.c09:fixed_positions:fixed_positions_arg_sets", None),
    "c09_user_position_treated_as_centre.diff": ("box", "contracts.c09:fixed_positions:fixed_positions_arg_sets", None),
    "c09_coordinate_constant_not_used.diff": ("contracts.c09", "_extract_coordinate", None),
    "c10_map_skips_condition_rows.diff": ("box", "contracts.c10:map_operands:map_operands_arg_sets", None),
    "c10_map_skips_latch_reset.diff": ("box", "contracts.c10:map_operands:map_operands_arg_sets", None),
    "c10_update_value_loses_type.diff": ("contracts.c10", "ConstantPropagationOptimizer._update_value", None),
    "c13_implicit_mapping_not_recorded.diff": ("box", "contracts.c13:resolve_identity:resolve_identity_arg_sets", None),
    "c13_label_before_declared_type.diff": ("box", "contracts.c13:resolve_identity:resolve_identity_arg_sets", None),
    "c17_second_import_pasted_again.diff": ("box", "contracts.c17:preprocess:preprocess_arg_sets", None),
    "c17_nested_imports_relative_to_main.diff": ("box", "contracts.c17:preprocess:preprocess_arg_sets", None),
    "c17_env_path_before_local.diff": ("box", "contracts.c17:resolve_path:resolve_arg_sets", None),
    "c17_lines_stripped.diff": ("box", "contracts.c17:preprocess:preprocess_arg_sets", None),
    "c12_edges_first_source_only.diff": ("box", "contracts.c12:collect_edges:collect_edges_arg_sets", None),
    "c12_edges_unresolved_name.diff": ("box", "contracts.c12:collect_edges:collect_edges_arg_sets", None),
    "c10_mst_not_minimal.diff": ("box", "contracts.c10:mst:mst_arg_sets", None),
    "c10_mst_stops_early.diff": ("box", "contracts.c10:mst:mst_arg_sets", None),
    "c18_pole_reach_of_one_end.diff": ("box", "contracts.c18:connect_nearest:connect_arg_sets", None),
    "c18_pole_farthest_first.diff": ("box", "contracts.c18:connect_nearest:connect_arg_sets", None),
    "c20_description_without_line.diff": ("box", "contracts.c20:describe:describe_arg_sets", None),
    "c20_description_name_dropped.diff": ("box", "contracts.c20:describe:describe_arg_sets", None),
    "c13_resolve_name_entry_before_explicit.diff": ("box", "contracts.c13:resolve_name:resolve_name_arg_sets", None),
    "c01_inline_materialised_constant.diff": ("box", "contracts.c13:inline_value_c:inline_value_arg_sets", None),
    "c08_relay_reused_across_networks.diff": ("box", "contracts.c08:route_signal_box:route_signal_arg_sets", None),
    "c08_relay_step_too_long.diff": ("box", "contracts.c08:route_signal_box:route_signal_arg_sets", None),
    "c04_self_feedback_on_green.diff": ("box", "contracts.c04:self_feedback:self_feedback_arg_sets", None),
    "c04_cleanup_keeps_wires_of_removed_gate.diff": ("box", "contracts.c04:cleanup_gates:cleanup_arg_sets", None),
    "../seeded/C04-1/patch.diff": ("box", "contracts.c04:optimize_feedback:feedback_arg_sets", None),
    "../seeded/C04-2/patch.diff": ("box", "contracts.c12:bidi:bidi_arg_sets", None),
    "../seeded/C04-6/patch.diff": ("box", "contracts.c12:bidi:bidi_arg_sets", None),
    "c05_latch_feedback_on_red.diff": ("contracts.c05", "_setup_latch_feedback", None),
})
TABLE.update({
    "cgraph_get_source_returns_last.diff": ("box", "contracts.cgraph:graph_contracts[get_source]:graph_arg_sets(get_source)", None),
    "cgraph_set_source_replaces.diff": ("box", "contracts.cgraph:graph_contracts[set_source]:graph_arg_sets(set_source)", None),
    "cgraph_iter_sinks_live_list.diff": ("box", "contracts.cgraph:graph_contracts[iter_sinks]:graph_arg_sets(iter_sinks)", None),
    "cgraph_create_placement_drops_extras.diff": ("box", "contracts.cgraph:plan_contracts[create_and_add_placement]:plan_arg_sets(create_and_add_placement)", None),
})
BOX_RUNNER = r'''
import sys, importlib
sys.path.insert(0, %r)
from bounded import pipeline
pipeline.ensure_repo()
from bounded.contract_enum import run_contract_enum
if __name__ == "__main__":
    modname, cname, aname = sys.argv[2].split(":")[:3]
    mod = importlib.import_module(modname)
    import re
    m = re.match(r"(\w+)\((\w+)\)$", aname)
    args = getattr(mod, m.group(1))(m.group(2)) if m else getattr(mod, aname)()
    m = re.match(r"(\w+)\[(\w+)\]$", cname)
    contract = getattr(mod, m.group(1))[m.group(2)] if m else getattr(mod, cname)
    br = run_contract_enum("box", contract, args, "selftest")
    if hasattr(mod, "cleanup"):
        mod.cleanup()
    print(br.error)
    print("RESULT", 1, 1 if br.violations else 0)
''' % str(VERIF)
# patches whose contract names a function the reverse patch removes (contract drift = undecided): refuted by the end-to-end judge
# on the given program instead (bounded: one program, all int32 inputs by SMT)
E2E_RUNNER = r'''
import sys
sys.path.insert(0, %r)
from bounded import e2e
bad = 0
for opt in (True, False):
    pv = e2e.judge(sys.argv[2], optimize=opt)
    print(pv.status, [(o.name, o.status) for o in pv.outputs])
    bad += sum(1 for o in pv.outputs if o.status in ("mismatch", "crosstalk", "missing")) + (1 if pv.status not in ("judged",) else 0)
print("RESULT", 1, 1 if bad else 0)
''' % str(VERIF)
GUARD_RUNNER = r'''
import sys
sys.path.insert(0, %r)
from pyvc import guards
rec = eval(sys.argv[2], vars(guards))
print(rec.get("status"), rec.get("detail"))
print("RESULT", 1, 1 if rec.get("status") == "violated" else 0)
''' % str(VERIF)
RUNNER = r'''
import sys, importlib
sys.path.insert(0, %r)
from pyvc import verify
mod = importlib.import_module(sys.argv[1]); pat = sys.argv[2]; only = sys.argv[3] if len(sys.argv) > 3 else None
bad = tot = 0
for c in mod.CONTRACTS:
    if not c.verify or pat not in c.qualname: continue
    if only and only not in (c.note or ""): continue
    rep = verify.verify_function(c, {}, frozenset())
    tot += 1
    if rep.error or rep.out_of_subset:
        print("UNDECIDED", c.short, rep.error or rep.out_of_subset); continue
    if any(o.status.startswith("violated") for o in rep.results): bad += 1
print("RESULT", tot, bad)
''' % str(VERIF)


def main():
    sel = sys.argv[1:]
    fails = 0
    for patch, (mod, pat, note) in TABLE.items():
        if sel and not any(s in patch for s in sel):
            continue
        tmp = Path(tempfile.mkdtemp(prefix="selft_"))
        repo = tmp / "repo"; repo.mkdir()
        try:
            subprocess.run(f"cd /repo && git ls-files -z | grep -zv '^doc/' | xargs -0 cp --parents -t {repo}", shell=True, check=True)
            r = subprocess.run(["patch", "-p1", "-d", str(repo), "-i", str(VERIF / "selftest" / patch)], capture_output=True, text=True)
            if r.returncode:
                print(f"{patch}: PATCH DOES NOT APPLY (contract drift of the self-test)"); fails += 1; continue
            env = dict(os.environ, FACTO_REPO=str(repo), PYTHONPATH=f"{VERIF}:{repo}", PYTHONHASHSEED="0")
            runner = {"guard": GUARD_RUNNER, "box": BOX_RUNNER, "e2e": E2E_RUNNER}.get(mod, RUNNER)
            if mod == "box":  # the pool of run_contract_enum needs an importable main module
                (tmp / "box_runner.py").write_text(runner)
                args = [str(VERIF / ".venv/bin/python"), str(tmp / "box_runner.py"), mod, pat]
            else:
                args = [str(VERIF / ".venv/bin/python"), "-c", runner, mod, pat] + ([note] if note else [])
            r = subprocess.run(args, env=env, capture_output=True, text=True)
            line = [l for l in r.stdout.splitlines() if l.startswith("RESULT")]
            tot, bad = (int(x) for x in line[-1].split()[1:]) if line else (0, 0)
            ok = bad > 0
            print(f"{patch}: {'refuted' if ok else 'NOT REFUTED'} ({bad} of {tot} contracts report a violation)" + ("" if ok else "\n" + r.stdout[-400:] + r.stderr[-400:]))
            fails += 0 if ok else 1
        finally:
            shutil.rmtree(tmp, ignore_errors=True)
    sys.exit(1 if fails else 0)


if __name__ == "__main__":
    main()
