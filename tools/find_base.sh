#!/bin/bash
# prints the newest /repo commit on which seeded/<name>/patch.diff applies cleanly
name=$1
for h in $(git -C /repo log --format=%h); do
  d=$(mktemp -d /tmp/fb_XXXX); git -C /repo archive $h | tar -x -C $d
  if (cd $d && git apply --check /verif/seeded/$name/patch.diff 2>/dev/null) || (cd $d && patch -p1 --dry-run -s < /verif/seeded/$name/patch.diff >/dev/null 2>&1); then rm -rf $d; echo $h; exit 0; fi
  rm -rf $d
done
exit 1
