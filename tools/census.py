#!/usr/bin/env python3
"""Coverage census: every function of /repo's compiler packages against the functions under contract (P tier) or inside a
contract box (bounded) in the evidence files. Prints the uncovered ones, largest first."""
import ast, glob, json, os, sys

REPO = os.environ.get("FACTO_REPO", "/repo")
covered = {}
inlined = set()
for f in glob.glob(os.path.join(os.path.dirname(__file__), "..", "evidence", "C*.json")):
    cov = json.load(open(f))["coverage"]
    for e in cov.get("functions_under_contract", []):
        covered.setdefault(e["qualname"], set()).add(e.get("tier", "P"))
        for n in e.get("inlined_callees", []):
            inlined.add(n)
    for b in cov.get("bounded", []) or []:
        q = b.get("function") if isinstance(b, dict) else None
        if q:
            covered.setdefault(q, set()).add("B")
rows = []
for path in sorted(glob.glob(REPO + "/dsl_compiler/src/**/*.py", recursive=True)):
    rel = os.path.relpath(path, REPO)
    if "/tests/" in rel:
        continue
    tree = ast.parse(open(path).read())
    def walk(node, prefix):
        for n in node.body:
            if isinstance(n, ast.ClassDef):
                walk(n, prefix + n.name + ".")
            elif isinstance(n, (ast.FunctionDef, ast.AsyncFunctionDef)):
                q = f"{rel}::{prefix}{n.name}"
                rows.append((q, n.end_lineno - n.lineno + 1))
    walk(tree, "")
unc = [(q, n) for q, n in rows if q not in covered and q.split("::")[1] not in inlined]
print(f"{len(rows)} functions, {len(rows) - len(unc)} under contract or box, {len(unc)} not")
pat = sys.argv[1] if len(sys.argv) > 1 else ""
for q, n in sorted(unc, key=lambda r: -r[1]):
    if pat in q:
        try:
            print(f"{n:5d}  {q}")
        except BrokenPipeError:
            break
