#!/usr/bin/env python3
"""Prints the per-property table of DESIGN.md §9.3 from the committed evidence files."""
import json, glob, collections
rows = []
for f in sorted(glob.glob("/verif/evidence/C*.json")):
    e = json.load(open(f))
    c = e["coverage"]
    fns = collections.OrderedDict()
    for fu in c.get("functions_under_contract", []):
        n = fu["qualname"].split("::")[-1]
        d = fns.setdefault(n, [0, 0])
        d[0] += fu.get("proved", 0); d[1] += fu.get("obligations", 0)
    ptxt = "; ".join(f"`{n}` {a}/{b}" for n, (a, b) in fns.items()) or "—"
    ext = [o for o in c.get("extra_obligations", [])] if isinstance(c.get("extra_obligations"), list) else []
    b = "; ".join(f"{x['name']}: {x['cases']} cases" + (f" ({len(x.get('known_findings', []))} KF)" if x.get("known_findings") else "") for x in c.get("bounded", [])) or "—"
    rows.append(f"| {e['property_id']} | {e['level']} | {c.get('discharged', 0)}/{c.get('obligations', 0)}: {ptxt} | {b} |")
print("| id | level | P obligations discharged (per function under contract) | bounded stand-ins (never counted as proved) |")
print("|---|---|---|---|")
print("\n".join(rows))
