#!/bin/sh
# Builds /verif/.venv offline: Python 3.12 overlay venv with z3-solver, cvc5, crosshair, deal,
# icontract, jsonschema from the local wheelhouse, plus a .pth giving access to the repo's own
# third-party dependencies (draftsman, ortools, lark, click) installed in /venv.
set -e
cd "$(dirname "$0")"
PY=/root/.pyenv/versions/3.12.1/bin/python
[ -x "$PY" ] || PY=/venv/bin/python
if [ ! -x .venv/bin/python ] || ! .venv/bin/python -c "import z3, cvc5, jsonschema" 2>/dev/null; then
  rm -rf .venv
  "$PY" -m venv .venv
  PIP_NO_INDEX=1 .venv/bin/pip install -q --no-index --find-links /opt/veriftools/wheels \
      z3-solver cvc5 crosshair-tool deal icontract jsonschema hypothesis
  SP=$(.venv/bin/python -c "import site; print(site.getsitepackages()[0])")
  echo "import site; site.addsitedir('/venv/lib/python3.12/site-packages')" > "$SP/_repo_deps.pth"
fi
.venv/bin/python -c "import z3, cvc5, lark, draftsman, ortools; print('setup ok: z3', z3.get_version_string())"
