#!/usr/bin/env python3
"""Regenerates MANIFEST.json from the table below (keeps it schema-valid at all times)."""
import json

CLAIMS = {
    # id: (category, technique, level text, level note, design_ref)
    "C11": ("proof", "contract-based deductive verification: VCs generated from the real source (pyvc: Python ast -> z3/cvc5), all int32 operands",
            "Every obligation carrying the property is generated from the current source of the folding functions and discharged by an SMT solver for all int32 operand pairs; counter-models are replayed on the real function.",
            "Trusted: pyvc's encoding of Python (DESIGN §2.1, CPython differential self-test), spec S1 (spec/arith32.py), CPython's int(text, base) for literal parsing, z3/cvc5.",
            "DESIGN §4 C11"),
    "C01": ("other", "contract chain K1..K9: pyvc VCs on the real folding/lowering functions (P) + bounded end-to-end validation of the real pipeline's blueprint (S2 circuit model) against the S3 source semantics by SMT over all int32 inputs (B)",
            "P obligations are discharged for all inputs; the program-shape quantifier is covered only by an enumerated scope (bounded stand-in, labelled, never counted as proved).",
            "Trusted: S1/S2/S3 specs, pyvc encoding, composition lemma; known findings KF-K7-crosstalk and KF-C01-comparison-result-type are reported, not suppressed silently.",
            "DESIGN §4 C01"),
    "C10": ("other", "relational pair lemma on the real CSE key functions + VCs on IR folding (pyvc, unbounded) + bounded optimised-vs-unoptimised validation against S3 by SMT",
            "Key injectivity (equal keys => equal operator, operands, output type, output mode) is proved for every pair of paths of the real _make_key/_value_key; whole-pass behaviour is checked on an enumerated scope (bounded).",
            "Trusted: f-strings modelled as tuples, S1/S2/S3, composition lemma, 'any spanning tree induces the same partition'.",
            "DESIGN §4 C10"),
    "C02": ("other", "pair lemma on the real CSE key (pyvc) + bounded end-to-end validation of the real pipeline's blueprint (S2 circuit model) against the S3 source semantics by SMT over all int32 inputs, on an enumerated scope of programs (every signal on each bundle anchor compared)",
            "Contract-based P obligations where listed are discharged for all inputs; the program-shape quantifier is covered by a bounded stand-in (enumerated scope, labelled bounded, never counted as proved).",
            "Trusted: S1/S2/S3 specs, pyvc encoding, composition lemma (DESIGN §3.3); known findings are reported as KNOWN-FINDING lines.",
            'DESIGN §4 C02'),
    "C06": ("other", "bounded end-to-end validation of the real pipeline's blueprint (S2 circuit model) against the S3 source semantics by SMT over all int32 inputs, on an enumerated scope of programs (entity circuit conditions vs enable > 0, chest contents as free inputs)",
            "Contract-based P obligations where listed are discharged for all inputs; the program-shape quantifier is covered by a bounded stand-in (enumerated scope, labelled bounded, never counted as proved).",
            "Trusted: S1/S2/S3 specs, pyvc encoding, composition lemma (DESIGN §3.3); known findings are reported as KNOWN-FINDING lines.",
            'DESIGN §4 C06'),
    "C09": ("other", "pyvc VCs on coordinate constant extraction + bounded end-to-end validation of the real pipeline's blueprint (S2 circuit model) against the S3 source semantics by SMT over all int32 inputs, on an enumerated scope of programs (multiset of user entities by prototype and top-left tile)",
            "Contract-based P obligations where listed are discharged for all inputs; the program-shape quantifier is covered by a bounded stand-in (enumerated scope, labelled bounded, never counted as proved).",
            "Trusted: S1/S2/S3 specs, pyvc encoding, composition lemma (DESIGN §3.3); known findings are reported as KNOWN-FINDING lines.",
            'DESIGN §4 C09'),
    "C12": ("other", "bounded end-to-end validation of the real pipeline's blueprint (S2 circuit model) against the S3 source semantics by SMT over all int32 inputs, on an enumerated scope of programs over all order-preserving interleavings of pairs of independent computations",
            "Contract-based P obligations where listed are discharged for all inputs; the program-shape quantifier is covered by a bounded stand-in (enumerated scope, labelled bounded, never counted as proved).",
            "Trusted: S1/S2/S3 specs, pyvc encoding, composition lemma (DESIGN §3.3); known findings are reported as KNOWN-FINDING lines.",
            'DESIGN §4 C12'),
    "C13": ("other", "bounded end-to-end validation of the real pipeline's blueprint (S2 circuit model) against the S3 source semantics by SMT over all int32 inputs, on an enumerated scope of programs plus freshness of every compiler-chosen signal against explicit / wildcard / reserved names",
            "Contract-based P obligations where listed are discharged for all inputs; the program-shape quantifier is covered by a bounded stand-in (enumerated scope, labelled bounded, never counted as proved).",
            "Trusted: S1/S2/S3 specs, pyvc encoding, composition lemma (DESIGN §3.3); known findings are reported as KNOWN-FINDING lines.",
            'DESIGN §4 C13'),
    "C15": ("other", "pyvc VCs on constant resolution + bounded end-to-end validation of the real pipeline's blueprint (S2 circuit model) against the S3 source semantics by SMT over all int32 inputs, on an enumerated scope of programs with S3's substitution semantics for calls",
            "Contract-based P obligations where listed are discharged for all inputs; the program-shape quantifier is covered by a bounded stand-in (enumerated scope, labelled bounded, never counted as proved).",
            "Trusted: S1/S2/S3 specs, pyvc encoding, composition lemma (DESIGN §3.3); known findings are reported as KNOWN-FINDING lines.",
            'DESIGN §4 C15'),
    "C20": ("other", "bounded end-to-end validation of the real pipeline's blueprint (S2 circuit model) against the S3 source semantics by SMT over all int32 inputs, on an enumerated scope of programs (every S3 output name must have its anchor / labelled constant carrying exactly its value)",
            "Contract-based P obligations where listed are discharged for all inputs; the program-shape quantifier is covered by a bounded stand-in (enumerated scope, labelled bounded, never counted as proved).",
            "Trusted: S1/S2/S3 specs, pyvc encoding, composition lemma (DESIGN §3.3); known findings are reported as KNOWN-FINDING lines.",
            'DESIGN §4 C20'),
    "C03": ("other", "bounded tick-level simulation of the real pipeline's blueprint (S2 model) against the S3 gated-cell semantics over enumerated held-input histories",
            "Bounded stand-in only (labelled bounded, never counted as proved): the DESIGN's template lemmas by SMT induction over ticks were not built; see DESIGN §4.",
            "Trusted: S2 tick model, S3 memory semantics; bounded histories / tick counts / value pools as printed in the evidence.",
            "DESIGN §4 C03"),
    "C04": ("other", 'bounded tick-level simulation (S2 model) from the all-zero state against the iteration equation value(t+L) = f(value(t)) with f from S3',
            "Bounded stand-in only (labelled bounded, never counted as proved): the DESIGN's template lemmas by SMT induction over ticks were not built; see DESIGN §4.",
            "Trusted: S2 tick model, S3 memory semantics; bounded histories / tick counts / value pools as printed in the evidence.",
            "DESIGN §4 C04"),
    "C05": ("other", 'bounded tick-level simulation (S2 model) against the S3 latch state machine (set/reset/hold/priority) over enumerated held-input histories',
            "Bounded stand-in only (labelled bounded, never counted as proved): the DESIGN's template lemmas by SMT induction over ticks were not built; see DESIGN §4.",
            "Trusted: S2 tick model, S3 memory semantics; bounded histories / tick counts / value pools as printed in the evidence.",
            "DESIGN §4 C05"),
    "C14": ("other", "exceptional postconditions on the real diagnostics / symbol-table functions (pyvc, unbounded) + bounded embedding of rule violations into accepted hosts through the real compile_dsl_source",
            "Abort-on-error and scoping primitives are proved for all inputs; the rule x embedding quantifier is covered by an enumerated scope (bounded stand-in).",
            "Trusted: pyvc encoding; Lark reports syntax errors as exceptions; bounded: 22 rules x snippets x embeddings.",
            "DESIGN §4 C14"),
    "C07": ("other", "bounded matrix of real CLI subprocess invocations; emitted text decoded with the standard library and executed by the S2 circuit model against S3 by SMT for all inputs",
            "Bounded stand-in (labelled bounded): programs x invocation modes; per decoded blueprint the input quantifier is decided by SMT.",
            "Trusted: base64/zlib/json, S2/S3; draftsman's 2.0 converter is lossless for the fields the emitter sets.",
            "DESIGN §4 C07"),
    "C17": ("other", "deductive verification of the library text: lib/math.facto parsed by the repo parser, evaluated by the S3 semantics to bit-vector terms and proved against the documented formulas by SMT for all int32 arguments; bounded enumeration of import graphs through the real pipeline",
            "13 library obligations are discharged for all arguments in the documented domain; import behaviour is covered by an enumerated scope of import graphs (bounded stand-in).",
            "Trusted: S3 as the meaning of Facto source (assumes C01), spec/libdocs.py as the meaning of the documentation, floor-division identity (self-checked).",
            "DESIGN §4 C17"),
    "C08": ("other", "bounded check of the real pipeline's blueprints against S4 prototype geometry (collision boxes, wire reach) and of relay isolation against the compiler's own signal graph",
            "Bounded stand-in (labelled bounded): programs x option sets; CP-SAT's own nondeterminism is not enumerated.",
            "Trusted: game data shipped with draftsman, Euclidean centre distance for wire length.",
            "DESIGN §4 C08"),
    "C18": ("other", "bounded check of the real pipeline's blueprints with --power-poles T against S4 (supply areas, copper reach, energy sources)",
            "Bounded stand-in; on the pinned tree per-consumer coverage and grid connectivity are recorded known findings (KF-C18-*), while coverage collapse, missing grid, over-long copper wires and stray poles are violations.",
            "Trusted: game data shipped with draftsman.",
            "DESIGN §4 C18"),
    "C16": ("other", "contract-based deductive verification (pyvc VCs with inductive loop invariants + variants on the real ForStmt.get_iteration_values) plus bounded stand-ins for the lowering plumbing",
            "The iteration sequence is proved for all (start, stop, step) and list iterators; the per-iteration scoping in the analyzer/lowerer is checked by bounded stand-ins, labelled as such.",
            "Trusted: pyvc encoding, composition lemma, 'IR equal up to fresh ids => same circuit'.",
            "DESIGN §4 C16"),
}

NOT_APPLICABLE = {
    "C19": "2-safety hyperproperty over pairs of compiler runs (hash seeds, solver schedules): not expressible as a unary pre/postcondition or invariant of any function; see DESIGN §5.",
}

PENDING_REASON = "no check registered yet in this revision (contract work in progress; see DESIGN §8)"


def main():
    ids = [json.loads(l)["id"] for l in open("properties.jsonl")]
    checks = []
    for pid in ids:
        if pid in CLAIMS:
            cat, tech, text, note, ref = CLAIMS[pid]
            checks.append({
                "property_id": pid,
                "quick_cmd": f"./check {pid} --tier quick",
                "thorough_cmd": f"./check {pid} --tier thorough",
                "evidence_file": f"evidence/{pid}.json",
                "replay_cmd_template": f"./check {pid} --replay {{path}}",
                "engine": "pyvc",
                "level_claimed": {"category": cat, "text": text, "design_ref": ref},
                "level_note": note,
                "technique": tech,
            })
    na = [{"property_id": p, "reason": NOT_APPLICABLE.get(p, PENDING_REASON)} for p in ids if p not in CLAIMS]
    man = {
        "version": 1,
        "setup_cmd": "./setup.sh",
        "hooks": {
            "guard": "FACTOMPILER_VERIF",
            "enable": "no hook lives in /repo: contracts are sidecars under /verif/contracts and run-time monitors are installed from /verif by the check process (FACTOMPILER_VERIF=1 only selects /verif's sitecustomize for CLI subprocess runs)",
            "baseline_off_cmd": "cd /repo && /venv/bin/python -m pytest -ra -q -p no:cacheprovider --timeout=900 --continue-on-collection-errors -n 16",
            "source_commits": [],
            "add_only": True,
        },
        "engines": [
            {"name": "pyvc", "path": "pyvc/", "serves_properties": sorted(CLAIMS),
             "kind_free_text": "verification-condition generator: forward symbolic execution of the real function's ast (re-read from /repo on every run) against sidecar contracts; z3 5.1 with cvc5 fallback; counter-models replayed on the imported real function"},
        ],
        "checks": checks,
        "not_applicable": na,
        "notes": "Exit codes: 0 held, 1 VIOLATION, 2 undecided, 3 checker failure. Known findings: KNOWN_FINDINGS.jsonl.",
    }
    json.dump(man, open("MANIFEST.json", "w"), indent=1)
    print("MANIFEST.json:", len(checks), "checks,", len(na), "not_applicable")


if __name__ == "__main__":
    main()
