#!/usr/bin/env python3
"""Regenerates MANIFEST.json from the table below (keeps it schema-valid at all times)."""
import json

CLAIMS = {
    # id: (category, technique, level text, level note, design_ref)
    "C11": ("proof", "contract-based deductive verification: VCs generated from the real source (pyvc: Python ast -> z3/cvc5), all int32 operands",
            "Every obligation carrying the property is generated from the current source of the folding functions and discharged by an SMT solver for all int32 operand pairs; counter-models are replayed on the real function.",
            "Trusted: pyvc's encoding of Python (DESIGN §2.1, CPython differential self-test), spec S1 (spec/arith32.py), CPython's int(text, base) for literal parsing, z3/cvc5. One obligation (IR-level '/') is discharged only in its `post OR class(KF-C11-ir-floor-division)` form. The contract on _try_fold_wire_merge covers merges of 2 and 3 constants (bounded list length; values symbolic).",
            "DESIGN §4 C11"),
    "C01": ('other', "contract chain K1..K9: pyvc VCs on the real lowering functions (lower_binary_op for all 19 operators as induction step over the expression tree, unary/comparison/logical lowerers, _is_boolean_producer), folding functions, the CSE key lemma and constant liveness (K4) and the decider/arithmetic emission (K8) (P) + bounded end-to-end validation of the real pipeline's blueprint (S2 circuit model) against the S3 source semantics by SMT over all int32 inputs (B)",
            'P obligations are discharged for all inputs; the program-shape quantifier is covered only by an enumerated scope (bounded stand-in, labelled, never counted as proved).',
            'Trusted: S1/S2/S3 specs, pyvc encoding, composition lemma; ASSUMED contracts inside the chain (logical-chain folding, wire merge, IR builder constructors, draftsman constructors) are listed in the evidence; the wire-colour planner (K7) is under a bounded box only (its specification decides two-colourability independently); known findings are reported, not suppressed silently.',
            'DESIGN §4 C01'),
    "C10": ('other', 'relational pair lemma on the real CSE key functions + VCs on IR folding + liveness contract on _maybe_mark_dead (every reader kind; bounded list length) with its call-site precondition (pyvc) + bounded optimised-vs-unoptimised validation against S3 by SMT',
            'Key injectivity (equal keys => equal operator, operands, output type, output mode) is proved for every pair of paths of the real _make_key/_value_key; whole-pass behaviour is checked on an enumerated scope (bounded).',
            "Trusted: f-strings modelled as tuples, S1/S2/S3, composition lemma, 'any spanning tree induces the same partition'.",
            'DESIGN §4 C10'),
    "C02": ("other", "pair lemma on the real CSE key (pyvc) + bounded end-to-end validation of the real pipeline's blueprint (S2 circuit model) against the S3 source semantics by SMT over all int32 inputs, on an enumerated scope of programs (every signal on each bundle anchor compared)",
            "Contract-based P obligations where listed are discharged for all inputs; the program-shape quantifier is covered by a bounded stand-in (enumerated scope, labelled bounded, never counted as proved).",
            "Trusted: S1/S2/S3 specs, pyvc encoding, composition lemma (DESIGN §3.3); known findings are reported as KNOWN-FINDING lines.",
            'DESIGN §4 C02'),
    "C06": ('other', 'P contract on the real EntityPlacer._try_inline_comparison (inlines only `signal CMP constant -> 1` deciders without other consumers) + bounded end-to-end validation (entity circuit conditions vs enable > 0 by SMT for all int32 inputs, chest contents free)',
            'Contract-based P obligations where listed are discharged for all inputs; the program-shape quantifier is covered by a bounded stand-in (enumerated scope, labelled bounded, never counted as proved).',
            'Trusted: S1/S2/S3 specs, pyvc encoding, composition lemma (DESIGN §3.3); known findings are reported as KNOWN-FINDING lines.',
            'DESIGN §4 C06'),
    "C09": ("other", "pyvc VCs on coordinate constant extraction, name resolution and EntityPlacer._place_user_entity (one placement, the user's prototype at the user's tile) + bounded end-to-end validation of the real pipeline's blueprint (S2 circuit model) against the S3 source semantics by SMT over all int32 inputs, on an enumerated scope of programs (multiset of user entities by prototype and top-left tile)",
            "Contract-based P obligations where listed are discharged for all inputs; the program-shape quantifier is covered by a bounded stand-in (enumerated scope, labelled bounded, never counted as proved).",
            "Trusted: S1/S2/S3 specs, pyvc encoding, composition lemma (DESIGN §3.3); known findings are reported as KNOWN-FINDING lines.",
            'DESIGN §4 C09'),
    "C12": ('other', 'P: relay network-id invariant (RelayNode), signal allocation, CSE key lemma (independent computations are never identified) + bounded end-to-end validation over all order-preserving interleavings of pairs of independent computations (SMT, all int32 inputs)',
            'Contract-based P obligations where listed are discharged for all inputs; the program-shape quantifier is covered by a bounded stand-in (enumerated scope, labelled bounded, never counted as proved).',
            'Trusted: S1/S2/S3 specs, pyvc encoding, composition lemma (DESIGN §3.3); known findings are reported as KNOWN-FINDING lines.',
            'DESIGN §4 C12'),
    "C13": ('other', 'P contract on the real signal allocator + bounded end-to-end validation plus freshness of every compiler-chosen signal against explicit / wildcard / reserved names',
            'Contract-based P obligations where listed are discharged for all inputs; the program-shape quantifier is covered by a bounded stand-in (enumerated scope, labelled bounded, never counted as proved).',
            'Trusted: S1/S2/S3 specs, pyvc encoding, composition lemma (DESIGN §3.3); known findings are reported as KNOWN-FINDING lines.',
            'DESIGN §4 C13'),
    "C15": ('other', "P contract on the real ExpressionLowerer._resolve_constant_symbol (lexical scoping of names during inlining) + constant extraction VCs + bounded end-to-end validation against S3's substitution semantics for calls (SMT, all int32 inputs)",
            'Contract-based P obligations where listed are discharged for all inputs; the program-shape quantifier is covered by a bounded stand-in (enumerated scope, labelled bounded, never counted as proved).',
            'Trusted: S1/S2/S3 specs, pyvc encoding, composition lemma (DESIGN §3.3); known findings are reported as KNOWN-FINDING lines.',
            'DESIGN §4 C15'),
    "C20": ("other", "P contract on the real EntityPlacer.create_output_anchors (exactly the expected anchors, labelled and wired; finite name abstraction) + bounded end-to-end validation of the real pipeline's blueprint (S2 circuit model) against the S3 source semantics by SMT over all int32 inputs, on an enumerated scope of programs (every S3 output name must have its anchor / labelled constant carrying exactly its value)",
            "Contract-based P obligations where listed are discharged for all inputs; the program-shape quantifier is covered by a bounded stand-in (enumerated scope, labelled bounded, never counted as proved).",
            "Trusted: S1/S2/S3 specs, pyvc encoding, composition lemma (DESIGN §3.3); known findings are reported as KNOWN-FINDING lines.",
            'DESIGN §4 C20'),
    "C03": ('other', 'P contract on the real MemoryLowerer._lower_standard_write (write enable on the reserved signal, all paths) + template lemmas (cover/base/step over the S2 one-tick function of the emitted blueprint, decided by SMT for all data values and single-input changes; induction over the history) + bounded tick simulation against the S3 gated-cell semantics',
            'The P contract is discharged for all inputs; template lemmas are decided by SMT per program of an enumerated scope (all values / all histories whose steps are held K ticks), reported in the bounded section because the program-shape quantifier is enumerated; the tick simulation is a bounded stand-in.',
            'Trusted: S2 tick model, S3 memory semantics, induction over the history as paper argument; bounded: program scope, history lengths / pools of the simulation as printed in the evidence.',
            'DESIGN §4 C03'),
    "C04": ('other', 'P contract on the real MemoryBuilder._is_always_write + iteration template lemma (for every state and constant inputs reader(step^L(s)) == f(reader(s)), by SMT) + bounded tick simulation from the all-zero state',
            'The P contract is discharged for all inputs; the iteration lemma is decided by SMT per program of an enumerated scope (all states, all inputs), reported in the bounded section; the tick simulation is a bounded stand-in.',
            'Trusted: S2 tick model, S3 memory semantics; the latency L is found by simulation and then proved.',
            'DESIGN §4 C04'),
    "C05": ('other', "P contracts on the real MemoryBuilder._handle_latch_write_inlined (the rows encode the set/reset/hold machine with the stated priority for all 36 comparator pairs x 2 priorities x all thresholds x all inputs), _invert_comparison and the parser's argument-order rules + template lemmas (SMT, all values / histories) + bounded tick simulation against the S3 latch machine",
            'P contracts are discharged for all inputs; template lemmas per program of an enumerated scope are decided by SMT and reported in the bounded section; the tick simulation is a bounded stand-in.',
            'Trusted: S2 row semantics (AND binds tighter than OR), S3 latch semantics, emission of the rows (contracts.c07 on _configure_decider_multi_condition); the non-inlined latch path is covered by lemmas / simulation only.',
            'DESIGN §4 C05'),
    "C14": ("other", "exceptional postconditions on the real diagnostics / symbol-table functions (pyvc, unbounded) + bounded embedding of rule violations into accepted hosts through the real compile_dsl_source",
            "Abort-on-error and scoping primitives are proved for all inputs; the rule x embedding quantifier is covered by an enumerated scope (bounded stand-in).",
            "Trusted: pyvc encoding; Lark reports syntax errors as exceptions; bounded: 22 rules x snippets x embeddings.",
            "DESIGN §4 C14"),
    "C07": ('other', "P contracts (K8) on the real PlanEntityEmitter._configure_decider / _configure_arithmetic / _configure_decider_multi_condition (emitted conditions mean the placement's comparison, wire selections kept) + AST call-site obligations on every export call (version=blueprint.version_tuple()) + bounded matrix of real CLI subprocess invocations whose text is decoded and executed by S2 against S3",
            'P obligations are discharged for all operands / comparators; the CLI matrix is a bounded stand-in (programs x invocation modes; per decoded blueprint the input quantifier is decided by SMT).',
            "Trusted: base64/zlib/json, S2/S3; ASSUMED: draftsman's Condition/Output/CircuitNetworkSelection constructors store their arguments, its 2.0 converter is lossless for the fields the emitter sets.",
            'DESIGN §4 C07'),
    "C17": ('other', 'deductive verification of the library text: lib/math.facto parsed by the repo parser, evaluated by the S3 semantics to bit-vector terms and proved against the documented formulas by SMT for all int32 arguments; P contract on name resolution inside inlined bodies; bounded enumeration of import graphs through the real pipeline',
            '13 library obligations are discharged for all arguments in the documented domain; import behaviour is covered by an enumerated scope of import graphs (bounded stand-in).',
            'Trusted: S3 as the meaning of Facto source (assumes C01), spec/libdocs.py as the meaning of the documentation, floor-division identity (self-checked).',
            'DESIGN §4 C17'),
    "C08": ('other', "P: RelayNode / TileGrid invariants and the relay-reuse guard (AST control dependence) + bounded check of the real pipeline's blueprints against S4 prototype geometry (collision boxes, wire reach) and of relay isolation against the compiler's own signal graph",
            "Bounded stand-in (labelled bounded): programs x option sets; CP-SAT's own nondeterminism is not enumerated.",
            'Trusted: game data shipped with draftsman, Euclidean centre distance for wire length.',
            'DESIGN §4 C08'),
    "C18": ("other", "P: LayoutPlanner._trim_power_poles removes only compiler-added poles that cover nothing; every copper wire the emitter adds is guarded by the reach of both poles (AST control dependence) + bounded check of the real pipeline's blueprints with --power-poles T against S4 (supply areas, copper reach, energy sources)",
            "Bounded stand-in; on the pinned tree per-consumer coverage and grid connectivity are recorded known findings (KF-C18-*), while coverage collapse, missing grid, over-long copper wires and stray poles are violations.",
            "Trusted: game data shipped with draftsman.",
            "DESIGN §4 C18"),
    "C16": ('other', 'contract-based deductive verification (pyvc VCs with inductive loop invariants + variants on the real ForStmt.get_iteration_values; name resolution contract for iterators) plus bounded stand-ins for the lowering plumbing',
            'The iteration sequence is proved for all (start, stop, step) and list iterators; the per-iteration scoping in the analyzer/lowerer is checked by bounded stand-ins, labelled as such.',
            "Trusted: pyvc encoding, composition lemma, 'IR equal up to fresh ids => same circuit'.",
            'DESIGN §4 C16'),
}

NOT_APPLICABLE = {
    "C19": "2-safety hyperproperty over pairs of compiler runs (hash seeds, solver schedules): not expressible as a unary pre/postcondition or invariant of any function; see DESIGN §5.",
}

PENDING_REASON = "no check registered yet in this revision (contract work in progress; see DESIGN §8)"


def _coverage_summary(pid):
    """what the check of this property actually puts under contract, read from its committed evidence (written by the check itself)"""
    try:
        ev = json.load(open(f"evidence/{pid}.json"))["coverage"]
    except Exception:
        return ""
    fns = []
    for f in ev.get("functions_under_contract", []):
        n = f["qualname"].split("::")[-1]
        if n not in fns:
            fns.append(n)
    boxes = [b["name"] for b in ev.get("bounded", [])]
    out = ""
    if fns:
        out += f" Functions under contract in the P tier ({len(fns)}): " + ", ".join(fns) + "."
    if boxes:
        out += f" Bounded stand-ins ({len(boxes)}; labelled bounded, never counted as proved): " + ", ".join(boxes) + "."
    return out


def main():
    ids = [json.loads(l)["id"] for l in open("properties.jsonl")]
    checks = []
    for pid in ids:
        if pid in CLAIMS:
            cat, tech, text, note, ref = CLAIMS[pid]
            checks.append({
                "property_id": pid,
                "quick_cmd": f"./check {pid} --tier quick",
                "thorough_cmd": f"./check {pid} --tier thorough",
                "evidence_file": f"evidence/{pid}.json",
                "replay_cmd_template": f"./check {pid} --replay {{path}}",
                "engine": "pyvc",
                "level_claimed": {"category": cat, "text": text, "design_ref": ref},
                "level_note": note,
                "technique": tech + _coverage_summary(pid),
            })
    na = [{"property_id": p, "reason": NOT_APPLICABLE.get(p, PENDING_REASON)} for p in ids if p not in CLAIMS]
    man = {
        "version": 1,
        "setup_cmd": "./setup.sh",
        "hooks": {
            "guard": "FACTOMPILER_VERIF",
            "enable": "no hook lives in /repo: contracts are sidecars under /verif/contracts and run-time monitors are installed from /verif by the check process (FACTOMPILER_VERIF=1 only selects /verif's sitecustomize for CLI subprocess runs)",
            "baseline_off_cmd": "cd /repo && /venv/bin/python -m pytest -ra -q -p no:cacheprovider --timeout=900 --continue-on-collection-errors -n 16",
            "source_commits": [],
            "add_only": True,
        },
        "engines": [
            {"name": "pyvc", "path": "pyvc/", "serves_properties": sorted(CLAIMS),
             "kind_free_text": "verification-condition generator: forward symbolic execution of the real function's ast (re-read from /repo on every run) against sidecar contracts; z3 5.1 with cvc5 fallback; counter-models replayed on the imported real function"},
        ],
        "checks": checks,
        "not_applicable": na,
        "notes": "Exit codes: 0 held, 1 VIOLATION, 2 undecided, 3 checker failure. Known findings: KNOWN_FINDINGS.jsonl.",
    }
    json.dump(man, open("MANIFEST.json", "w"), indent=1)
    print("MANIFEST.json:", len(checks), "checks,", len(na), "not_applicable")


if __name__ == "__main__":
    main()
